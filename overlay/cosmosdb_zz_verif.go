//go:build verif

package cosmosdb

import (
	"context"
	"sync"

	"github.com/Azure/azure-sdk-for-go/sdk/azcore/runtime"
	"github.com/Azure/azure-sdk-for-go/sdk/data/azcosmos"
	"github.com/element-of-surprise/coercion/plugins/registry"
)

// NewFakeVaultForVerif wires a Vault to the package's own in-memory fake client, exactly as the package's tests do
// (crud_test.go). It exists only in verification builds (added with `go test -overlay`, build tag verif).
func NewFakeVaultForVerif(reg *registry.Register) *Vault {
	store := newFakeStorage(reg)
	mu := &sync.RWMutex{}
	defaultIOpts := &azcosmos.ItemOptions{}
	rd := reader{mu: mu, container: "container", client: store, defaultIOpts: defaultIOpts, reg: reg}
	return &Vault{
		reader:  rd,
		creator: creator{mu: mu, client: store, reader: rd},
		updater: newUpdater(mu, store, defaultIOpts),
		deleter: deleter{mu: mu, client: store, reader: rd},
		closer:  closer{},
	}
}

// pagedClient re-serves what the package's fake answers to a query as several pages, linked by continuation tokens,
// optionally with an empty page (that still carries a token) after the first one - as the real service may do. It
// changes nothing about WHICH items the fake returns; it only exercises the readers' paging loops.
type pagedClient struct {
	*fakeStorage
	pageSize   int
	emptyAfter bool
}

func (p *pagedClient) NewQueryItemsPager(query string, pk azcosmos.PartitionKey, o *azcosmos.QueryOptions) *runtime.Pager[azcosmos.QueryItemsResponse] {
	inner := p.fakeStorage.NewQueryItemsPager(query, pk, o)
	var all [][]byte
	var ferr error
	for {
		res, err := inner.NextPage(context.Background())
		if err != nil {
			ferr = err
			break
		}
		all = append(all, res.Items...)
		if !inner.More() {
			break
		}
	}
	type page struct {
		items [][]byte
	}
	var pages []page
	for i := 0; i < len(all); i += p.pageSize {
		j := i + p.pageSize
		if j > len(all) {
			j = len(all)
		}
		pages = append(pages, page{items: all[i:j]})
		if p.emptyAfter && i == 0 && j < len(all) {
			pages = append(pages, page{}) // an empty page in the middle of the result
		}
	}
	if len(pages) == 0 {
		pages = []page{{}}
	}
	next := 0
	return runtime.NewPager(runtime.PagingHandler[azcosmos.QueryItemsResponse]{
		More: func(pg azcosmos.QueryItemsResponse) bool { return pg.ContinuationToken != nil },
		Fetcher: func(ctx context.Context, _ *azcosmos.QueryItemsResponse) (azcosmos.QueryItemsResponse, error) {
			if ferr != nil {
				return azcosmos.QueryItemsResponse{}, ferr
			}
			pg := pages[next]
			next++
			out := azcosmos.QueryItemsResponse{Items: pg.items}
			if next < len(pages) {
				tok := "more"
				out.ContinuationToken = &tok
			}
			return out, nil
		},
	})
}

// NewPagedFakeVaultForVerif is NewFakeVaultForVerif with the reader's queries answered in pages of pageSize items.
func NewPagedFakeVaultForVerif(reg *registry.Register, pageSize int, emptyAfter bool) *Vault {
	store := newFakeStorage(reg)
	mu := &sync.RWMutex{}
	defaultIOpts := &azcosmos.ItemOptions{}
	rd := reader{mu: mu, container: "container", client: &pagedClient{fakeStorage: store, pageSize: pageSize, emptyAfter: emptyAfter}, defaultIOpts: defaultIOpts, reg: reg}
	return &Vault{
		reader:  rd,
		creator: creator{mu: mu, client: store, reader: rd},
		updater: newUpdater(mu, store, defaultIOpts),
		deleter: deleter{mu: mu, client: store, reader: rd},
		closer:  closer{},
	}
}
