//go:build verif

package cosmosdb

import (
	"sync"

	"github.com/Azure/azure-sdk-for-go/sdk/data/azcosmos"
	"github.com/element-of-surprise/coercion/plugins/registry"
)

// NewFakeVaultForVerif wires a Vault to the package's own in-memory fake client, exactly as the package's tests do
// (crud_test.go). It exists only in verification builds (added with `go test -overlay`, build tag verif).
func NewFakeVaultForVerif(reg *registry.Register) *Vault {
	store := newFakeStorage(reg)
	mu := &sync.RWMutex{}
	defaultIOpts := &azcosmos.ItemOptions{}
	rd := reader{mu: mu, container: "container", client: store, defaultIOpts: defaultIOpts, reg: reg}
	return &Vault{
		reader:  rd,
		creator: creator{mu: mu, client: store, reader: rd},
		updater: newUpdater(mu, store, defaultIOpts),
		deleter: deleter{mu: mu, client: store, reader: rd},
		closer:  closer{},
	}
}
