#!/bin/bash
# Confirms a finished sub-agent seed in its worktree, stores it under /verif/seeded/<id>-<suffix>, removes the worktree.
# Usage: tools/take_seed.sh C20 [suffix] [worktree]
ID="$1"; SUF="${2:-a}"; WT="${3:-/tmp/wt-$ID}"; D=/verif/seeded/$ID-$SUF
/verif/tools/confirm_seed.sh $WT | tail -1 > /tmp/confirm-$ID.txt
cat /tmp/confirm-$ID.txt
grep -q "demo_with_patch_exit=[1-9].* suite_with_patch_exit=0 reverse_apply_exit=0 demo_without_patch_exit=0" /tmp/confirm-$ID.txt || { echo "NOT CONFIRMED: $ID (worktree kept)"; exit 1; }
mkdir -p $D; cp $WT/seeded/patch.diff $WT/seeded/demo.md $D/; cp $WT/seeded/*demo_test.go* $D/ 2>/dev/null
for f in $D/*_test.go; do [ -f "$f" ] && mv "$f" "$f.txt"; done
cp /tmp/confirm-$ID.txt $D/confirm.txt
BASE=$(git -C $WT rev-parse --short HEAD)
python3 - <<PY
import json
m=json.load(open('$WT/seeded/meta.json'))
m['confirmed_by_builder']={'demo_fails_with_patch':True,'suite_passes_with_patch':True,'demo_passes_without_patch':True,'how':'tools/confirm_seed.sh in the scratch worktree (demo cmd, full suite minus demo packages with -skip Seeded, git apply -R, demo cmd)','base_commit':'$BASE'}
json.dump(m,open('$D/meta.json','w'),indent=1)
PY
git -C /repo worktree remove --force $WT && echo "stored $D"
