#!/bin/bash
# Applies a seeded defect to /repo, runs the given checks (quick tier), and always restores /repo.
# Usage: tools/try_seed.sh seeded/C02-a C02 [C04 ...]   (env TIER=thorough for the thorough tier)
set -u
SEED="$(cd "$1" && pwd)"; shift
cd /repo || exit 2
if [ -n "$(git status --porcelain)" ]; then echo "/repo is dirty, refusing"; exit 2; fi
restore() { git -C /repo reset -q --hard HEAD; git -C /repo clean -fdq >/dev/null 2>&1; }
trap restore EXIT
PATCH="$SEED/patch.diff"
# A seed made on the pinned commit may touch lines that a later fix: commit changed; then a ported patch is kept next to it.
[ -f "$SEED/patch.ported.diff" ] && PATCH="$SEED/patch.ported.diff"
if ! git apply "$PATCH" 2>/dev/null; then
  if ! patch -p1 --fuzz=3 -s --no-backup-if-mismatch -f < "$PATCH" >/dev/null 2>&1; then echo "PATCH DOES NOT APPLY (needs porting): $SEED"; exit 3; fi
fi
echo "applied: $(git diff --stat | tail -1)"
cd /verif
for P in "$@"; do
  echo "--- $P on $(basename $SEED)"
  ./check "$P" --tier "${TIER:-quick}" | grep -E "^(VIOLATION|KNOWN|HARNESS|C[0-9]+ tier|  rule)" | head -12
done
