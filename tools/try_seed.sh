#!/bin/bash
# Runs the given checks (quick tier) against a scratch worktree of /repo with a seeded defect applied; /repo itself is
# never touched, and the run keeps its binary, evidence and replays under .work/ (removed afterwards).
# Usage: tools/try_seed.sh seeded/C02-a C02 [C04 ...]   (env TIER=thorough for the thorough tier, WORKERS=n)
set -u
SEED="$(cd "$1" && pwd)"; shift
NAME="$(basename "$SEED")"
WT="/tmp/seedtry-$NAME-$$"
git -C /repo worktree add -q --detach "$WT" HEAD || exit 2
ALT="/verif/.work/alt-$(echo "$WT" | tr -c 'A-Za-z0-9' '_')"
cleanup() { git -C /repo worktree remove --force "$WT" >/dev/null 2>&1; rm -rf "$WT" "$ALT"; git -C /repo worktree prune; }
trap cleanup EXIT
PATCH="$SEED/patch.diff"
# A seed made on the pinned commit may touch lines that a later fix: commit changed; then a ported patch is kept next to it.
[ -f "$SEED/patch.ported.diff" ] && PATCH="$SEED/patch.ported.diff"
cd "$WT" || exit 2
if ! git apply "$PATCH" 2>/dev/null; then
  if ! patch -p1 --fuzz=3 -s --no-backup-if-mismatch -f < "$PATCH" >/dev/null 2>&1; then echo "PATCH DOES NOT APPLY (needs porting): $SEED"; exit 3; fi
fi
echo "applied: $(git diff --stat | tail -1)"
cd /verif
for P in "$@"; do
  echo "--- $P on $NAME"
  VERIF_REPO="$WT" ./check "$P" --tier "${TIER:-quick}" --workers "${WORKERS:-8}" | grep -E "^(VIOLATION|KNOWN|HARNESS|C[0-9]+ tier|  rule)" | head -12
  for r in "$ALT"/replays/*.json; do [ -f "$r" ] && python3 -c "
import json,sys
d=json.load(open('$r')); v=d.get('violation',{})
print('   ', v.get('rule'), '|', v.get('signature'), '|', (v.get('msg') or '')[:260])" ; done
  rm -f "$ALT"/replays/*.json
done
