#!/bin/bash
# Generates the build overlay used by every check:
#  - a copy of the Go runtime's select.go in which the random poll order of select can be switched to a
#    deterministic one by the harness (variable runtime.selectOrderMode; 0 = stock behaviour).
set -eu
VERIF="$(cd "$(dirname "$0")/.." && pwd)"
GR="$(GOTOOLCHAIN=local go1.26.8 env GOROOT)"
OUT="${VERIF_OVERLAY_OUT:-$VERIF/.bin/overlay}"
REPO="${VERIF_REPO:-/repo}"
mkdir -p "$OUT"
python3 - "$GR/src/runtime/select.go" "$OUT/runtime_select.go" "$GR/src/runtime/chan.go" "$OUT/runtime_chan.go" "$GR/src/runtime/sema.go" "$OUT/runtime_sema.go" <<'PY'
import sys,re
src=open(sys.argv[1]).read()
needle="\t\tj := cheaprandn(uint32(norder + 1))\n"
assert src.count(needle)==1, "runtime/select.go changed: shuffle line not found"
patched=src.replace(needle, needle+"\t\tswitch selectOrderMode {\n\t\tcase 1:\n\t\t\tj = uint32(norder) // source order\n\t\tcase 2:\n\t\t\tj = 0 // last case first\n\t\t}\n")
# A channel that outlives one bubble (process-wide pools in the code under test) is adopted by the bubble that uses it
# next instead of killing the process; executions of one worker run strictly one after the other.
needle2="\t\t\tif getg().bubble != cas.c.bubble {\n\t\t\t\tfatal(\"select on synctest channel from outside bubble\")\n\t\t\t}\n"
assert patched.count(needle2)==1, "runtime/select.go changed: bubble check not found"
patched=patched.replace(needle2,"\t\t\tif getg().bubble != cas.c.bubble {\n\t\t\t\tif selectOrderMode == 0 {\n\t\t\t\t\tfatal(\"select on synctest channel from outside bubble\")\n\t\t\t\t}\n\t\t\t\tcas.c.bubble = getg().bubble\n\t\t\t}\n")
patched+="\n// selectOrderMode is set by the verification harness (0 = random, stock behaviour).\n//\n//go:linkname selectOrderMode\nvar selectOrderMode uint32\n"
open(sys.argv[2],"w").write(patched)
ch=open(sys.argv[3]).read()
n=0
for verb in ("send on","close of","receive on"):
    a="\tif c.bubble != nil && getg().bubble != c.bubble {\n\t\tfatal(\"%s synctest channel from outside bubble\")\n\t}\n" % verb
    b="\tif c.bubble != nil && getg().bubble != c.bubble {\n\t\tif selectOrderMode == 0 {\n\t\t\tfatal(\"%s synctest channel from outside bubble\")\n\t\t}\n\t\tc.bubble = getg().bubble\n\t}\n" % verb
    n+=ch.count(a); ch=ch.replace(a,b)
    a="\tif c.bubble != nil && getg().bubble != c.bubble {\n\t\tunlockf()\n\t\tfatal(\"%s synctest channel from outside bubble\")\n\t}\n" % verb
    b="\tif c.bubble != nil && getg().bubble != c.bubble {\n\t\tif selectOrderMode == 0 {\n\t\t\tunlockf()\n\t\t\tfatal(\"%s synctest channel from outside bubble\")\n\t\t}\n\t\tc.bubble = getg().bubble\n\t}\n" % verb
    n+=ch.count(a); ch=ch.replace(a,b)
assert n==5, "runtime/chan.go changed: %d bubble checks found" % n
# Wake-first policy (variable runtime.wakeFirstMode, 0 = stock): a goroutine of a bubble that has just made another
# goroutine runnable (channel hand-off, close, semaphore release) yields to it at once instead of running on to its own
# next blocking point. The harness explores scenarios under both policies.
for fn,k in (("send",1),("recv",1)):
    a="\tgoready(gp, skip+1)\n}\n"
    assert ch.count(a)==2, "runtime/chan.go changed: goready in send/recv"
ch=ch.replace("\tgoready(gp, skip+1)\n}\n","\tgoready(gp, skip+1)\n\tverifYieldToWoken()\n}\n")
a="\t\tgoready(gp, 3)\n\t}\n}\n"
assert ch.count(a)==1, "runtime/chan.go changed: goready in closechan"
ch=ch.replace(a,"\t\tgoready(gp, 3)\n\t}\n\tverifYieldToWoken()\n}\n")
ch+="""
// wakeFirstMode is set by the verification harness (0 = stock behaviour).
//
//go:linkname wakeFirstMode
var wakeFirstMode uint32

func verifYieldToWoken() {
	if wakeFirstMode == 0 {
		return
	}
	gp := getg()
	if gp.bubble == nil || gp.m.curg != gp || gp.m.locks != 0 || gp.m.preemptoff != "" {
		return
	}
	goyield()
}
"""
open(sys.argv[4],"w").write(ch)
se=open(sys.argv[5]).read()
a="\t\t\tgoyield()\n\t\t}\n\t}\n}\n"
assert se.count(a)==1, "runtime/sema.go changed: handoff yield not found"
se=se.replace(a,"\t\t\tgoyield()\n\t\t} else {\n\t\t\tverifYieldToWoken()\n\t\t}\n\t}\n}\n")
open(sys.argv[6],"w").write(se)
PY
cat > "$OUT/overlay.json" <<JSON
{"Replace": {"$GR/src/runtime/select.go": "$OUT/runtime_select.go", "$GR/src/runtime/chan.go": "$OUT/runtime_chan.go", "$GR/src/runtime/sema.go": "$OUT/runtime_sema.go", "$REPO/workflow/storage/cosmosdb/zz_verif.go": "$VERIF/overlay/cosmosdb_zz_verif.go"}}
JSON
echo "$OUT/overlay.json"
