#!/bin/bash
# Generates the build overlay used by every check:
#  - a copy of the Go runtime's select.go in which the random poll order of select can be switched to a
#    deterministic one by the harness (variable runtime.selectOrderMode; 0 = stock behaviour).
set -eu
VERIF="$(cd "$(dirname "$0")/.." && pwd)"
GR="$(GOTOOLCHAIN=local go1.26.8 env GOROOT)"
OUT="$VERIF/.bin/overlay"
mkdir -p "$OUT"
python3 - "$GR/src/runtime/select.go" "$OUT/runtime_select.go" <<'PY'
import sys
src=open(sys.argv[1]).read()
needle="\t\tj := cheaprandn(uint32(norder + 1))\n"
assert src.count(needle)==1, "runtime/select.go changed: shuffle line not found"
patched=src.replace(needle, needle+"\t\tswitch selectOrderMode {\n\t\tcase 1:\n\t\t\tj = uint32(norder) // source order\n\t\tcase 2:\n\t\t\tj = 0 // last case first\n\t\t}\n")
patched+="\n// selectOrderMode is set by the verification harness (0 = random, stock behaviour).\n//\n//go:linkname selectOrderMode\nvar selectOrderMode uint32\n"
open(sys.argv[2],"w").write(patched)
PY
cat > "$OUT/overlay.json" <<JSON
{"Replace": {"$GR/src/runtime/select.go": "$OUT/runtime_select.go"}}
JSON
echo "$OUT/overlay.json"
