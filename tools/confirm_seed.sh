#!/bin/bash
# Confirms a sub-agent's seeded defect inside its scratch worktree: demo fails with the patch, the existing suite
# passes with the patch, demo passes without the patch. Usage: confirm_seed.sh /tmp/wt-C01
WT="$1"; cd "$WT" || exit 2
export GOFLAGS=-mod=mod GOPROXY=off
LOG="$WT/seeded/confirm.log"; : > "$LOG"
DEMO=$(python3 -c "import json;print(json.load(open('$WT/seeded/meta.json'))['demo_cmd'])")
echo "## demo with patch: $DEMO" >> "$LOG"
bash -c "$DEMO" >> "$LOG" 2>&1; D1=$?
echo "## suite with patch" >> "$LOG"
PK=$(go list ./... | grep -v -i seeded)
go test -vet=off -count=1 -timeout 25m -skip 'Seeded' $PK >> "$LOG" 2>&1; S=$?
echo "## demo without patch" >> "$LOG"
git apply -R seeded/patch.diff >> "$LOG" 2>&1; R=$?
bash -c "$DEMO" >> "$LOG" 2>&1; D2=$?
git apply seeded/patch.diff >> "$LOG" 2>&1
echo "RESULT demo_with_patch_exit=$D1 suite_with_patch_exit=$S reverse_apply_exit=$R demo_without_patch_exit=$D2" | tee -a "$LOG"
