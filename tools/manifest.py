#!/usr/bin/env python3
"""Regenerates /verif/MANIFEST.json from the table below (kept valid at all times)."""
import json, os
V = os.path.dirname(os.path.dirname(os.path.abspath(__file__)))
props = [json.loads(l) for l in open(os.path.join(V, 'properties.jsonl'))]

MC_NOTE = ("Trusted: the harness scheduler (gates in front of every storage and plugin call, fake clock of testing/synctest), "
           "Go 1.26.8 runtime with GOMAXPROCS=1 per worker, a 64-runner worker pool; engine-internal steps between two visible operations "
           "are atomic in I/O mode; bounds (deviation bound, scenario grammar, tick horizon) as reported in the evidence.")
MC_TECH = "stateless model checking of the implementation under a controlled scheduler (iterative deviation bounding + state-key pruning; unbounded on sharp scenarios in the thorough tier)"

claimed = {
 "C01": ("model_checking", "Every order of visible operations (storage writes, plugin calls, API calls) of the real engine, run in a testing/synctest bubble, is enumerated for families of plan shapes (no checks with every failing position; every subset of the five check groups at plan or block level with 0/1 failing group; hand-picked sharp scenarios) within a deviation bound; each plugin invocation is checked against the events that precede it (sequence order, block order, pre-check gating, post/deferred ordering).", "§5 C01", MC_NOTE, MC_TECH),
 "C02": ("model_checking", "Exhaustive exploration, on the real engine inside a testing/synctest bubble, of every order of visible operations of a grid of block/sequence/concurrency scenarios (incl. two plans on one Workstream) within a deviation bound (quick) or over the whole state space with state-key pruning (thorough); a state invariant counts the sequences with a plugin call in flight per block and per plan.", "§5 C02", MC_NOTE, MC_TECH),
 "C03": ("model_checking", "Every order of visible operations for the grid of failing-sequence placements x tolerance x concurrency (plus check-group and sharp scenarios) within a deviation bound; state predicates decide which sequences had ended when the tolerance was exceeded and that no unstarted sequence starts afterwards; the final stored plan is checked for 'Failed exactly when', nothing invoked after a failed block, plan Failed; a hang (nothing enabled, no timer, Wait not returned) is detected structurally.", "§5 C03", MC_NOTE, MC_TECH),
 "C04": ("model_checking", "A driver thread sits in Workstream.Wait; the storage read Wait performs is gated, so the state in which the waiter has been released is explicit. There the plan is read from the real vault and must be terminal, with nothing Running, no plugin call in flight, the cross-object consistency rules of the statement and an admissible reason; afterwards every remaining operation and two more timer ticks are executed and the plan must neither be invoked nor change. All orders of visible operations (and ticks) within the deviation bound for families F-seq, F-chk, F-cont (continuous check in flight when the plan ends by every route), F-sharp and two plans on one Workstream.", "§5 C04", MC_NOTE, MC_TECH),
 "C06": ("model_checking", "Every subset of the five check groups at plan or block level with 0/1 failing group (and both levels with two actions per group), sharp and continuous-check scenarios; all orders of visible operations within the deviation bound; each plugin invocation is checked against the bypass / pre-check / initial continuous-check outcomes that precede it, and the final stored plan against the gating rules (bypassed scope Completed and silent, failed bypass alone never fails, failed pre-check or initial continuous run => no sequence action and scope Failed).", "§5 C06", MC_NOTE, MC_TECH),
 "C07": ("model_checking", "Continuous checks failing at their k-th run at plan, block or both levels, with TICK (let the next timer fire) as an explorer action so that every position of the failing run relative to sequence boundaries is reached, incl. 'slow plugin' twins where time passes by default while an action executes; passing continuous checks with every other failure route and deferred checks present; a state predicate watches that the check thread never sits idle for a whole Delay while a sequence action executes; end-state predicates: a failed run fails the scope (ContCheck reason at plan level), deferred checks exactly once for entered scopes and never for bypassed ones, a deferred failure fails the scope.", "§5 C07", MC_NOTE, MC_TECH),
 "C05": ("model_checking", "One scripted action (as a sequence action and as one of two parallel pre-check actions), Retries 0..2 (3), ALL canonical outcome scripts over {ok, nil response, transient, permanent, wrong type, overrun, late answer after the timeout}; the action timeout is 5 s of fake time and at every parked plugin call the explorer chooses between 'the plugin answers' and 'the next timer fires', all combinations within the deviation bound; invocation rules are state predicates at every invocation, and the attempts stored in the real vault are matched one to one, in order, with the invocations (own response, error kind, timeout recorded as retryable with the context cancelled, wrong type => permanent without response, start<=end).", "§5 C05", MC_NOTE, MC_TECH),
 "C08": ("model_checking", "The real vault is read directly at every quiescent state of every explored execution (the finest polling history; any real poller sees a subsequence): at each plugin invocation the stored action must be Running with exactly the previous attempts, the previous action of the sequence durably Completed; when the waiter is released the stored plan is terminal with nothing Running; a block, sequence or sequence action once read as Completed/Failed never reads differently. All orders of storage writes and plugin calls within the deviation bound for F-seq, F-chk, F-sharp and retried sequences.", "§5 C08", MC_NOTE, MC_TECH),
 "C12": ("model_checking", "ALL sequential API histories up to length 3 (4) over Start/Wait/Plan/Status on a known and an unknown id and a sleep past maxSubmit, issued by a driver thread while the engine runs; two and three concurrent drivers on one plan (all interleavings at storage-gate granularity within the bound, whole state space in the thorough tier); a panicking API call is caught in the driver, a panic or exit elsewhere kills the worker process and is reported from its write-ahead schedule. Predicates: no action invoked more often than one execution allows, a Start after a successful Start is rejected, rejected Starts have no side effects, stale submissions cannot be started, no panic/exit.", "§5 C12", MC_NOTE, MC_TECH),
}

checks = []
for pid, (cat, text, ref, note, tech) in sorted(claimed.items()):
    checks.append({
        "property_id": pid,
        "quick_cmd": f"./check {pid} --tier quick",
        "thorough_cmd": f"./check {pid} --tier thorough",
        "evidence_file": f"/verif/evidence/{pid}.json",
        "replay_cmd_template": f"./check {pid} --replay {{path}}",
        "engine": "mc",
        "level_claimed": {"category": cat, "text": text, "design_ref": "DESIGN.md " + ref},
        "level_note": note,
        "technique": tech,
    })
na = [{"property_id": p["id"], "reason": "check not built yet in this revision of /verif (planned: see DESIGN.md §5); not claimed until it runs"} for p in props if p["id"] not in claimed]
m = {
 "version": 1,
 "setup_cmd": "./check setup",
 "hooks": {"guard": "verif", "enable": "no source change in /repo is needed: white-box hooks are files added at build time with `go test -overlay` under build tag verif", "baseline_off_cmd": "cd /repo && GOFLAGS=-mod=mod GOPROXY=off go test -vet=off -count=1 -timeout 25m ./...", "source_commits": [], "add_only": True},
 "engines": [{"name": "mc", "path": "/verif/harness/mc", "serves_properties": sorted(claimed), "kind_free_text": "hand-written explorer: real coercion.Workstream in a testing/synctest bubble, gated vault and plugins, DFS over schedules with deviation bound and state-key pruning, worker subprocesses"}],
 "checks": checks,
 "not_applicable": na,
 "notes": "See DESIGN.md. Genuine defects found are repaired by 'fix:' commits in /repo and recorded in known_findings.json (status fixed) or listed there as open findings.",
}
json.dump(m, open(os.path.join(V, 'MANIFEST.json'), 'w'), indent=1)
print("claimed:", sorted(claimed), "not_applicable:", len(na))
