package mc

import (
	"context"
	"fmt"
	"runtime"
	"sort"
	"strconv"
	"strings"
	"sync"
	"time"
	altmc "verif/harness/mc/alt/mc"

	"github.com/element-of-surprise/coercion/plugins"
	"github.com/element-of-surprise/coercion/workflow"
	"github.com/google/uuid"
	"github.com/gostdlib/base/retry/exponential"
)

// Event is one entry of the execution's event log (append-only, in occurrence order).
type Event struct {
	Step   int    `json:"step"`
	Kind   string `json:"k"` // INV RET CTXDONE W R API APIRET TICK NEW
	Thread string `json:"th,omitempty"`
	Path   string `json:"path,omitempty"`
	N      int    `json:"n,omitempty"`   // invocation number of Path (0-based) for INV/RET/CTXDONE
	Out    string `json:"out,omitempty"` // outcome for INV/RET; op for W/R; call for API
	Status string `json:"st,omitempty"`  // for W: status written
	NAtt   int    `json:"natt,omitempty"`
	Now    int64  `json:"now"` // fake seconds since bubble epoch
	Gen    int    `json:"gen,omitempty"`
	Err    string `json:"err,omitempty"`
	Snap   any    `json:"-"`
}

func (e Event) String() string {
	s := fmt.Sprintf("%d@%ds %s", e.Step, e.Now, e.Kind)
	if e.Thread != "" {
		s += " [" + e.Thread + "]"
	}
	if e.Path != "" {
		s += " " + e.Path
	}
	switch e.Kind {
	case "INV", "RET", "CTXDONE":
		s += fmt.Sprintf(" #%d %s", e.N, e.Out)
	case "W":
		s += fmt.Sprintf(" %s natt=%d", e.Status, e.NAtt)
	default:
		if e.Out != "" {
			s += " " + e.Out
		}
	}
	if e.Err != "" {
		s += " err=" + e.Err
	}
	return s
}

// Gate is a goroutine parked at a visible operation.
type Gate struct {
	Label      string
	Thread     string
	Kind       string // INV W R C S X(exists) L(list) D(delete) API Y(yield)
	Path       string
	Detail     string
	Site       string
	Releasable bool
	Abandoned  bool // Late plugins: the engine's context was cancelled while the call is still parked
	N          int
	ch         chan struct{}
	seq        int
}

// World is everything one execution consists of. All fields are guarded by mu unless only touched by the driver.
type World struct {
	mu sync.Mutex

	Sc    *Scenario
	Epoch time.Time

	parked  []*Gate
	arrival chan struct{}
	gateSeq int

	Events []Event
	Step   int
	Gen    int // process incarnation (0 = first run, 1 = after first crash, ...)

	passthrough bool // gates do not park (setup, teardown)

	invCount map[string]int // per path, per world: number of Execute entries so far
	InFlight map[string]int // per path: Execute entered and not returned

	Objs    map[string]*ObjInfo // by path
	PathOf  map[uuid.UUID]string
	PlanIDs []uuid.UUID
	Plans   []*workflow.Plan // the objects handed to Submit (the engine does not use them after Create... it does not; Start re-reads)

	apiGoids       map[uint64]string
	driverGoid     uint64             // the driver (bubble root) goroutine never parks: its storage calls are setup/boot work
	apiCur         map[string]APICall // the call each API thread is currently inside
	LastThread     string
	lastReleaseSeq int // gateSeq at the last release: gates with a larger seq arrived after it

	Writes []WriteRec // durable write log (all generations)

	fineYield bool
	Warnings  []string
}

// WriteRec is one completed storage write (for the crash model).
type WriteRec struct {
	Step int
	Gen  int
	Op   string // UpdatePlan UpdateBlock UpdateChecks UpdateSequence UpdateAction
	Path string
	Obj  any // shallow snapshot (own row only)
}

func NewWorld(sc *Scenario) *World {
	return &World{
		Sc:       sc,
		Epoch:    time.Now(),
		arrival:  make(chan struct{}, 1),
		invCount: map[string]int{},
		InFlight: map[string]int{},
		Objs:     map[string]*ObjInfo{},
		PathOf:   map[uuid.UUID]string{},
		apiGoids: map[uint64]string{},
		apiCur:   map[string]APICall{},
	}
}

func (w *World) nowSec() int64 { return int64(time.Since(w.Epoch) / time.Second) }

func (w *World) log(e Event) {
	e.Step = w.Step
	e.Now = w.nowSec()
	e.Gen = w.Gen
	w.Events = append(w.Events, e)
}

// Log appends an event (thread safe).
func (w *World) Log(e Event) {
	w.mu.Lock()
	w.log(e)
	w.mu.Unlock()
}

func (w *World) warn(format string, a ...any) {
	w.mu.Lock()
	w.Warnings = append(w.Warnings, fmt.Sprintf(format, a...))
	w.mu.Unlock()
}

func (w *World) signal() {
	select {
	case w.arrival <- struct{}{}:
	default:
	}
}

// park blocks the calling goroutine until the driver releases the gate or ctx (if non-nil) is done.
// It returns false when it was woken by ctx.
func (w *World) park(g *Gate, ctx context.Context) bool {
	w.mu.Lock()
	if w.passthrough || (w.driverGoid != 0 && goid() == w.driverGoid) {
		w.mu.Unlock()
		return true
	}
	g.ch = make(chan struct{})
	w.gateSeq++
	g.seq = w.gateSeq
	base := g.Thread + "|" + g.Kind + "|" + g.Path + "|" + g.Detail
	label := base
	for k := 2; ; k++ {
		dup := false
		for _, o := range w.parked {
			if o.Label == label {
				dup = true
				break
			}
		}
		if !dup {
			break
		}
		label = base + "~" + strconv.Itoa(k)
	}
	g.Label = label
	w.parked = append(w.parked, g)
	w.mu.Unlock()
	w.signal()
	if ctx == nil {
		<-g.ch
		return true
	}
	select {
	case <-g.ch:
		return true
	case <-ctx.Done():
		w.mu.Lock()
		for i, o := range w.parked {
			if o == g {
				w.parked = append(w.parked[:i], w.parked[i+1:]...)
				break
			}
		}
		w.mu.Unlock()
		w.signal()
		return false
	}
}

// Parked returns the parked gates sorted by label.
func (w *World) Parked() []*Gate {
	w.mu.Lock()
	out := append([]*Gate(nil), w.parked...)
	w.mu.Unlock()
	sort.Slice(out, func(i, j int) bool { return out[i].Label < out[j].Label })
	return out
}

func (w *World) release(g *Gate) {
	w.mu.Lock()
	for i, o := range w.parked {
		if o == g {
			w.parked = append(w.parked[:i], w.parked[i+1:]...)
			break
		}
	}
	w.LastThread = g.Thread
	w.lastReleaseSeq = w.gateSeq
	w.mu.Unlock()
	close(g.ch)
}

// drain switches to passthrough and releases everything parked.
func (w *World) drain() {
	w.mu.Lock()
	w.passthrough = true
	ps := w.parked
	w.parked = nil
	w.mu.Unlock()
	for _, g := range ps {
		close(g.ch)
	}
}

func goid() uint64 {
	var buf [64]byte
	n := runtime.Stack(buf[:], false)
	// "goroutine 123 ["
	s := string(buf[:n])
	s = strings.TrimPrefix(s, "goroutine ")
	if i := strings.IndexByte(s, ' '); i > 0 {
		id, _ := strconv.ParseUint(s[:i], 10, 64)
		return id
	}
	return 0
}

// engineSite inspects the stack and returns the names (short) of the engine frames, innermost first.
func engineFrames(skip int) []string {
	var pcs [48]uintptr
	n := runtime.Callers(skip, pcs[:])
	frames := runtime.CallersFrames(pcs[:n])
	var out []string
	for {
		f, more := frames.Next()
		fn := f.Function
		if strings.Contains(fn, "element-of-surprise/coercion") {
			if i := strings.LastIndex(fn, "/"); i >= 0 {
				fn = fn[i+1:]
			}
			out = append(out, fn)
		}
		if !more {
			break
		}
	}
	return out
}

func hasFrame(frames []string, sub string) bool {
	for _, f := range frames {
		if strings.Contains(f, sub) {
			return true
		}
	}
	return false
}

// threadFor derives the logical thread of an engine goroutine performing an operation on the object at path.
func (w *World) threadFor(path string, frames []string) (thread, site string) {
	if len(frames) > 0 {
		site = frames[0]
		// the first frame is the storage method or plugin of the engine itself; take the first sm/execute frame
		for _, f := range frames {
			if strings.HasPrefix(f, "sm.") || strings.HasPrefix(f, "execute.") || strings.HasPrefix(f, "actions.") || strings.HasPrefix(f, "coercion.") {
				site = f
				break
			}
		}
	}
	if name, ok := w.apiGoids[goid()]; ok {
		return name, site
	}
	// The logical thread is derived from the OBJECT operated on, not from function names (a refactor that renames
	// engine functions must not change what the monitors see): everything on a sequence or one of its actions is the
	// sequence's thread, a check action is its own thread, a checks group its own, blocks and plans are the plan's
	// main thread. Boot work of a new Workstream runs on the driver goroutine and never parks.
	oi := w.Objs[path]
	if oi == nil {
		return "main:P?", site
	}
	switch {
	case oi.Kind == "seq":
		return oi.Path, site
	case oi.Kind == "action" && oi.Seq >= 0:
		return oi.Parent, site
	case oi.Kind == "action":
		return oi.Path, site
	case oi.Kind == "checks":
		return oi.Path, site
	}
	return fmt.Sprintf("main:P%d", oi.Plan), site
}

// ---------------------------------------------------------------------------------------------
// Harness plugins.

type Plug struct {
	w     *World
	name  string
	check bool
	resp  any
}

var _ plugins.Plugin = (*Plug)(nil)

func (p *Plug) Name() string { return p.name }

func (p *Plug) ValidateReq(req any) error {
	if _, ok := req.(Req); !ok {
		return fmt.Errorf("bad request type %T", req)
	}
	return nil
}
func (p *Plug) Request() any  { return Req{} }
func (p *Plug) Response() any { return Resp{} }
func (p *Plug) IsCheck() bool { return p.check }
func (p *Plug) Init() error   { return nil }
func (p *Plug) RetryPolicy() exponential.Policy {
	return exponential.Policy{InitialInterval: time.Second, Multiplier: 2, RandomizationFactor: 0, MaxInterval: 60 * time.Second}
}

func (p *Plug) Execute(ctx context.Context, req any) (any, *plugins.Error) {
	w := p.w
	r, _ := req.(Req)
	path := r.Path
	frames := engineFrames(2)

	w.mu.Lock()
	oi := w.Objs[path]
	n := w.invCount[path]
	w.invCount[path] = n + 1
	w.InFlight[path]++
	out := OK
	if oi != nil && oi.Act != nil {
		out = oi.Act.outcome(n)
	}
	thread := path
	if oi != nil && oi.Seq >= 0 {
		thread = oi.Parent
	}
	w.log(Event{Kind: "INV", Thread: thread, Path: path, N: n, Out: out})
	w.mu.Unlock()

	site := ""
	if len(frames) > 0 {
		site = frames[0]
	}
	g := &Gate{Thread: thread, Kind: "INV", Path: path, Detail: "#" + strconv.Itoa(n) + ":" + out, Site: site, Releasable: out != Overrun, N: n}
	if out == Late {
		// The plugin does not honour its context: it stays parked (and releasable) when the engine gives up on it. When
		// the engine gives up because the attempt's timeout elapsed, the call is the plugin's own business from then on
		// and no longer counts as in flight; when the context ends EARLIER - the engine moved on for a reason of its own,
		// e.g. it took somebody else's answer for this call's - the call keeps counting until it really returns.
		invAt := time.Now()
		timeout := time.Hour
		if w.Sc.TimeoutRace {
			timeout = 5 * time.Second
		}
		early := false
		stop := context.AfterFunc(ctx, func() {
			w.mu.Lock()
			still := false
			for _, o := range w.parked {
				if o == g {
					still = true
				}
			}
			if still {
				g.Abandoned = true
				if time.Since(invAt) < timeout {
					early = true
					w.log(Event{Kind: "CTXDONE", Thread: thread, Path: path, N: n, Out: out, Err: "before the timeout"})
				} else {
					w.InFlight[path]--
					w.log(Event{Kind: "CTXDONE", Thread: thread, Path: path, N: n, Out: out})
				}
			}
			w.mu.Unlock()
			w.signal()
		})
		w.park(g, nil)
		stop()
		w.mu.Lock()
		if !g.Abandoned {
			w.InFlight[path]--
			w.log(Event{Kind: "RET", Thread: thread, Path: path, N: n, Out: out})
		} else {
			if early {
				w.InFlight[path]--
			}
			w.log(Event{Kind: "LATERET", Thread: thread, Path: path, N: n, Out: out})
		}
		w.mu.Unlock()
		return Resp{Path: path, N: n}, nil
	}
	released := w.park(g, ctx)

	w.mu.Lock()
	w.InFlight[path]--
	if !released {
		w.log(Event{Kind: "CTXDONE", Thread: thread, Path: path, N: n, Out: out})
		w.mu.Unlock()
		return nil, &plugins.Error{Message: "context done: " + path}
	}
	w.log(Event{Kind: "RET", Thread: thread, Path: path, N: n, Out: out})
	w.mu.Unlock()

	switch out {
	case OK:
		return Resp{Path: path, N: n}, nil
	case NilResp:
		return nil, nil
	case Perm:
		return nil, &plugins.Error{Message: "permanent failure of " + path, Permanent: true}
	case Trans:
		return nil, &plugins.Error{Message: "transient failure of " + path}
	case TransZero:
		return nil, &plugins.Error{}
	case WrongType:
		return OtherResp{Bogus: path}, nil
	case WrongNamed:
		return altmc.Resp{Path: path, N: n}, nil
	case PermWrap:
		return nil, &plugins.Error{Message: "permanent failure of " + path, Permanent: true, Wrapped: &plugins.Error{Message: "cause (not flagged permanent)"}}
	case RespPerm:
		return Resp{Path: path, N: n}, &plugins.Error{Message: "permanent failure with a partial result of " + path, Permanent: true}
	case RespTrans:
		return Resp{Path: path, N: n}, &plugins.Error{Message: "transient failure with a partial result of " + path}
	case WrongTrans:
		return OtherResp{Bogus: path}, &plugins.Error{Message: "transient failure with a junk response of " + path}
	case WrongPerm:
		return OtherResp{Bogus: path}, &plugins.Error{Message: "permanent failure with a junk response of " + path, Permanent: true}
	}
	return nil, &plugins.Error{Message: "unknown outcome " + out, Permanent: true}
}

// Invocations returns how often path was invoked so far.
func (w *World) Invocations(path string) int {
	w.mu.Lock()
	defer w.mu.Unlock()
	return w.invCount[path]
}
