package mc

import (
	"fmt"
	"sort"
	"strings"
	"time"

	"github.com/element-of-surprise/coercion/workflow"
)

// ObjView is the state of one stored object, addressed by its path.
type ObjView struct {
	Path   string
	Kind   string
	Status workflow.Status
	Start  time.Time
	End    time.Time
	Reason workflow.FailureReason // plans only
	Att    []AttView              // actions only
}

type AttView struct {
	HasErr    bool
	Permanent bool
	Msg       string
	HasResp   bool
	Resp      any
	Start     time.Time
	End       time.Time
}

// PlanView is a flattened stored plan.
type PlanView struct {
	Objs  map[string]*ObjView
	Order []string // execution order (walk order)
}

func (v *PlanView) add(path, kind string, st *workflow.State) *ObjView {
	o := &ObjView{Path: path, Kind: kind}
	if st != nil {
		o.Status, o.Start, o.End = st.Status, st.Start, st.End
	} else {
		o.Status = -1
	}
	v.Objs[path] = o
	v.Order = append(v.Order, path)
	return o
}

func (v *PlanView) addAction(a *workflow.Action) {
	o := v.add(a.Name, "action", a.State)
	for _, at := range a.Attempts {
		av := AttView{Start: at.Start, End: at.End, HasResp: at.Resp != nil, Resp: at.Resp}
		if at.Err != nil {
			av.HasErr, av.Permanent, av.Msg = true, at.Err.Permanent, at.Err.Message
		}
		o.Att = append(o.Att, av)
	}
}

func (v *PlanView) addChecks(scope, g string, c *workflow.Checks) {
	if c == nil {
		return
	}
	v.add(scope+"/"+g, "checks", c.State)
	for _, a := range c.Actions {
		v.addAction(a)
	}
}

// View flattens a plan built by BuildPlan (object names are paths).
func View(p *workflow.Plan) *PlanView {
	v := &PlanView{Objs: map[string]*ObjView{}}
	if p == nil {
		return v
	}
	o := v.add(p.Name, "plan", p.State)
	o.Reason = p.Reason
	v.addChecks(p.Name, "By", p.BypassChecks)
	v.addChecks(p.Name, "Pre", p.PreChecks)
	v.addChecks(p.Name, "Cont", p.ContChecks)
	for _, b := range p.Blocks {
		v.add(b.Name, "block", b.State)
		v.addChecks(b.Name, "By", b.BypassChecks)
		v.addChecks(b.Name, "Pre", b.PreChecks)
		v.addChecks(b.Name, "Cont", b.ContChecks)
		for _, s := range b.Sequences {
			v.add(s.Name, "seq", s.State)
			for _, a := range s.Actions {
				v.addAction(a)
			}
		}
		v.addChecks(b.Name, "Post", b.PostChecks)
		v.addChecks(b.Name, "Def", b.DeferredChecks)
	}
	v.addChecks(p.Name, "Post", p.PostChecks)
	v.addChecks(p.Name, "Def", p.DeferredChecks)
	return v
}

// Digest renders statuses (no times) canonically.
func (v *PlanView) Digest() string {
	paths := make([]string, 0, len(v.Objs))
	for p := range v.Objs {
		paths = append(paths, p)
	}
	sort.Strings(paths)
	var b strings.Builder
	for _, p := range paths {
		o := v.Objs[p]
		fmt.Fprintf(&b, "%s=%s", p, o.Status)
		if o.Kind == "plan" {
			fmt.Fprintf(&b, "/%s", o.Reason)
		}
		if o.Kind == "action" {
			b.WriteString("[")
			for _, a := range o.Att {
				switch {
				case !a.HasErr:
					b.WriteString("k")
				case a.Permanent:
					b.WriteString("F")
				default:
					b.WriteString("t")
				}
			}
			b.WriteString("]")
		}
		b.WriteString(" ")
	}
	return b.String()
}

// DefaultDigest is the end-state digest used to count distinct outcomes.
func DefaultDigest(x *Exec) string {
	var b strings.Builder
	b.WriteString(x.Outcome + " ")
	for pi := range x.Sc.Plans {
		p, err := x.ReadPlan(pi)
		if err != nil {
			fmt.Fprintf(&b, "P%d:err ", pi)
			continue
		}
		b.WriteString(View(p).Digest())
	}
	x.W.mu.Lock()
	paths := make([]string, 0, len(x.W.invCount))
	for p := range x.W.invCount {
		paths = append(paths, p)
	}
	sort.Strings(paths)
	for _, p := range paths {
		fmt.Fprintf(&b, "%s#%d ", p, x.W.invCount[p])
	}
	x.W.mu.Unlock()
	return b.String()
}
