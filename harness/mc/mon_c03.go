package mc

import (
	"fmt"
	"strings"

	"github.com/element-of-surprise/coercion/workflow"
)

// C03: tolerated failures.
type monC03 struct{}

type c03mem struct {
	terminated map[string]bool            // failing sequences whose thread has ended
	frozen     map[string]map[string]bool // block path -> sequences not started when the tolerance was exceeded
}

func threadActive(x *Exec, thread string, gates []*Gate, h *Hist) (hasGate, hasEvents bool) {
	for _, g := range gates {
		if g.Thread == thread {
			hasGate = true
		}
	}
	for i := range h.Events {
		if h.Events[i].Thread == thread && h.Events[i].Gen == 0 {
			hasEvents = true
			break
		}
	}
	return
}

// hangCause classifies a hang by what is known to trigger one; anything else keeps a generic signature.
func hangCause(x *Exec, h *Hist) string {
	n := len(h.Events)
	for pi := range x.Sc.Plans {
		for bi := range x.Sc.Plans[pi].Blocks {
			bs := &x.Sc.Plans[pi].Blocks[bi]
			bp := fmt.Sprintf("P%d/B%d", pi, bi)
			if bs.Cont != nil && (h.groupFailedEver(x, bp+"/Pre", n) || h.groupFailedEver(x, bp+"/Cont", n)) {
				return "hang:block-prechecks-failed-with-block-contchecks"
			}
		}
	}
	return "hang:unclassified"
}

// recoveryTolerance: failures that were durable before the crash still count against the tolerance afterwards.
func (monC03) recoveryTolerance(x *Exec) {
	from, to := newEvents(x, "c03r")
	if from == to {
		return
	}
	h := NewHist(x, -1)
	for k := from; k < to; k++ {
		e := &h.Events[k]
		if e.Kind != "INV" {
			continue
		}
		oi := x.W.Objs[e.Path]
		if !isSeqAction(oi) {
			continue
		}
		cv := crashView(x, oi.Plan)
		if cv == nil {
			continue
		}
		// "after a Failed block no later block invokes anything" holds in the restarted process as well: a block durably
		// Failed before the crash stays the end of the plan's sequences
		for bi := 0; bi < oi.Block; bi++ {
			bp := fmt.Sprintf("P%d/B%d", oi.Plan, bi)
			if bo := cv.Objs[bp]; bo != nil && bo.Status == workflow.Failed {
				x.Report(&Violation{Property: "C03", Rule: "invocation-after-failed-block", Signature: "failed-block-across-crash",
					Msg: fmt.Sprintf("recovery invoked %s although %s was durably Failed before the crash", e.Path, bp)})
			}
		}
		if ss := cv.Objs[oi.Parent]; ss == nil || ss.Status != workflow.NotStarted {
			continue // it was already in flight (or finished) at the crash
		}
		bs := &x.Sc.Plans[oi.Plan].Blocks[oi.Block]
		if bs.Tol < 0 {
			continue
		}
		failed := 0
		for _, sp := range x.seqPaths(oi.Plan, oi.Block) {
			if so := cv.Objs[sp]; so != nil && so.Status == workflow.Failed {
				failed++
			}
		}
		if failed > bs.Tol {
			x.Report(&Violation{Property: "C03", Rule: "sequence-started-after-tolerance-exceeded", Signature: "tolerance-across-crash",
				Msg: fmt.Sprintf("recovery started %s although %d sequences of its block were durably Failed before the crash (ToleratedFailures=%d)", oi.Parent, failed, bs.Tol)})
		}
	}
}

func (monC03) recoveryEnd(x *Exec) {
	if x.Outcome != "done" {
		return
	}
	for pi := range x.Sc.Plans {
		p, err := x.ReadPlan(pi)
		if err != nil {
			continue
		}
		v := View(p)
		for bi := range x.Sc.Plans[pi].Blocks {
			bs := &x.Sc.Plans[pi].Blocks[bi]
			bp := fmt.Sprintf("P%d/B%d", pi, bi)
			bo := v.Objs[bp]
			if bo == nil || bs.Tol < 0 {
				continue
			}
			failed := 0
			for _, sp := range x.seqPaths(pi, bi) {
				if so := v.Objs[sp]; so != nil && so.Status == workflow.Failed {
					failed++
				}
			}
			conc := bs.Conc
			if conc < 1 {
				conc = 1
			}
			if bo.Status == workflow.Completed && failed > bs.Tol {
				x.Report(&Violation{Property: "C03", Rule: "block-completed-despite-failure", Signature: "block-status-across-crash",
					Msg: fmt.Sprintf("after recovery %s is Completed with %d Failed sequences (ToleratedFailures=%d)", bp, failed, bs.Tol)})
			}
			if failed > bs.Tol+conc {
				x.Report(&Violation{Property: "C03", Rule: "too-many-failed-sequences", Signature: "tolerance-across-crash",
					Msg: fmt.Sprintf("after recovery %s has %d Failed sequences, ToleratedFailures+Concurrency=%d", bp, failed, bs.Tol+conc)})
			}
		}
	}
}

func (mon monC03) AtState(x *Exec) {
	if _, ok := recoveryMode(x); ok {
		mon.recoveryTolerance(x)
		return
	}
	m, _ := x.Mem["c03m"].(*c03mem)
	if m == nil {
		m = &c03mem{terminated: map[string]bool{}, frozen: map[string]map[string]bool{}}
		x.Mem["c03m"] = m
	}
	h := NewHist(x, 0)
	n := len(h.Events)
	gates := x.W.Parked()
	for pi := range x.Sc.Plans {
		for bi := range x.Sc.Plans[pi].Blocks {
			bs := &x.Sc.Plans[pi].Blocks[bi]
			if bs.Tol < 0 {
				continue
			}
			bp := fmt.Sprintf("P%d/B%d", pi, bi)
			seqs := x.seqPaths(pi, bi)
			nTerm := 0
			for _, sp := range seqs {
				if !m.terminated[sp] {
					ss := h.seqAt(x, sp, n)
					if ss.Failed {
						if g, _ := threadActive(x, sp, gates, h); !g {
							m.terminated[sp] = true
						}
					}
				}
				if m.terminated[sp] {
					nTerm++
				}
			}
			if nTerm > bs.Tol && m.frozen[bp] == nil {
				fr := map[string]bool{}
				for _, sp := range seqs {
					g, ev := threadActive(x, sp, gates, h)
					if !g && !ev {
						fr[sp] = true
					}
				}
				m.frozen[bp] = fr
			}
			for sp := range m.frozen[bp] {
				if ss := h.seqAt(x, sp, n); ss.Started {
					x.Report(&Violation{Property: "C03", Rule: "sequence-started-after-tolerance-exceeded", Signature: "tolerance",
						Msg: fmt.Sprintf("%s was started although %d sequences of %s had already failed and ended (ToleratedFailures=%d)", sp, nTerm, bp, bs.Tol)})
				}
			}
		}
	}
	// Concurrency 1: execution stops exactly at the failure that exceeds the tolerance.
	from, to := newEvents(x, "c03")
	for k := from; k < to; k++ {
		e := &h.Events[k]
		if e.Kind != "INV" || e.Gen != 0 {
			continue
		}
		oi := x.W.Objs[e.Path]
		if !isSeqAction(oi) || oi.Idx != 0 || e.N != 0 {
			continue
		}
		bs := &x.Sc.Plans[oi.Plan].Blocks[oi.Block]
		conc := bs.Conc
		if conc < 1 {
			conc = 1
		}
		if conc != 1 || bs.Tol < 0 {
			continue
		}
		failed := 0
		for _, sp := range x.seqPaths(oi.Plan, oi.Block) {
			if sp != oi.Parent && h.seqAt(x, sp, k).Failed {
				failed++
			}
		}
		if failed > bs.Tol {
			x.Report(&Violation{Property: "C03", Rule: "sequence-started-after-tolerance-exceeded", Signature: "tolerance-c1",
				Msg: fmt.Sprintf("%s was started with Concurrency 1 although %d sequences had already failed (ToleratedFailures=%d)", oi.Parent, failed, bs.Tol)})
		}
	}
}

func (mon monC03) AtEnd(x *Exec) {
	if _, ok := recoveryMode(x); ok {
		mon.recoveryEnd(x)
		return
	}
	h := NewHist(x, 0)
	n := len(h.Events)
	if x.Outcome == "hang" {
		x.Report(&Violation{Property: "C03", Rule: "plan-never-ended", Signature: hangCause(x, h),
			Msg: "the plan did not reach a terminal state: nothing is enabled, no timer is pending and Wait has not returned"})
		return
	}
	if x.Outcome != "done" {
		return
	}
	for pi := range x.Sc.Plans {
		p, err := x.ReadPlan(pi)
		if err != nil {
			continue
		}
		v := View(p)
		planPath := fmt.Sprintf("P%d", pi)
		planContFailed := h.groupFailedEver(x, planPath+"/Cont", n)
		failedBlock := -1
		for bi := range x.Sc.Plans[pi].Blocks {
			bs := &x.Sc.Plans[pi].Blocks[bi]
			bp := fmt.Sprintf("%s/B%d", planPath, bi)
			conc := bs.Conc
			if conc < 1 {
				conc = 1
			}
			failedSeqs := 0
			for _, sp := range x.seqPaths(pi, bi) {
				if h.seqAt(x, sp, n).Failed {
					failedSeqs++
				}
			}
			if bs.Tol >= 0 && failedSeqs > bs.Tol+conc {
				x.Report(&Violation{Property: "C03", Rule: "too-many-failed-sequences", Signature: "tolerance",
					Msg: fmt.Sprintf("%s: %d sequences failed, ToleratedFailures+Concurrency=%d", bp, failedSeqs, bs.Tol+conc)})
			}
			if failedBlock >= 0 {
				for path, cs := range h.Calls {
					if len(cs) > 0 && len(path) > len(bp) && path[:len(bp)+1] == bp+"/" {
						x.Report(&Violation{Property: "C03", Rule: "invocation-after-failed-block", Signature: "after-failed-block",
							Msg: fmt.Sprintf("%s was invoked although block %d had failed", path, failedBlock)})
						break
					}
				}
			}
			ownChecks := h.groupFailedEver(x, bp+"/Pre", n) || h.groupFailedEver(x, bp+"/Cont", n) || h.groupFailedEver(x, bp+"/Post", n) || h.groupFailedEver(x, bp+"/Def", n)
			expectFailed := (bs.Tol >= 0 && failedSeqs > bs.Tol) || ownChecks
			bypassed := bs.Bypass != nil && h.groupPassed(x, bp+"/By", n)
			st := v.Objs[bp]
			if st == nil {
				continue
			}
			switch st.Status {
			case workflow.Completed:
				if expectFailed && !bypassed {
					x.Report(&Violation{Property: "C03", Rule: "block-completed-despite-failure", Signature: "block-status",
						Msg: fmt.Sprintf("%s is stored Completed but failedSequences=%d tolerance=%d ownChecksFailed=%v", bp, failedSeqs, bs.Tol, ownChecks)})
				}
			case workflow.Failed:
				if !expectFailed && !planContFailed {
					x.Report(&Violation{Property: "C03", Rule: "block-failed-without-cause", Signature: "block-status",
						Msg: fmt.Sprintf("%s is stored Failed but failedSequences=%d tolerance=%d and none of its checks failed", bp, failedSeqs, bs.Tol)})
				}
				if bypassed {
					x.Report(&Violation{Property: "C03", Rule: "block-failed-although-bypassed", Signature: "block-status", Msg: bp + " was bypassed but is stored Failed"})
				}
				if failedBlock < 0 {
					failedBlock = bi
				}
			}
		}
		if failedBlock >= 0 {
			if ps := v.Objs[planPath]; ps != nil && ps.Status != workflow.Failed {
				x.Report(&Violation{Property: "C03", Rule: "plan-not-failed-after-failed-block", Signature: "plan-status",
					Msg: fmt.Sprintf("block %d of %s is Failed but the plan is stored %s", failedBlock, planPath, ps.Status)})
			}
		}
	}
}

// FamilyTol: the C03 grid: 2-5 sequences, every placement of 1-3 failing sequences, t in {-1,0,1,2} (and -2, MinInt32
// for up to 3 sequences), c in {1,2,3}.
func FamilyTol(tier string) []*Scenario {
	var out []*Scenario
	maxSeq := 4
	if tier == "thorough" {
		maxSeq = 5
	}
	for nseq := 2; nseq <= maxSeq; nseq++ {
		for mask := 1; mask < 1<<nseq; mask++ {
			nf := 0
			for i := 0; i < nseq; i++ {
				if mask&(1<<i) != 0 {
					nf++
				}
			}
			if nf > 3 {
				continue
			}
			for _, tol := range []int{-1, 0, 1, 2, -2, -2147483648} {
				if tol >= nseq || (tol < -1 && nseq > 3) {
					continue // "a negative value allows all": values other than -1 on the small grids
				}
				for _, conc := range []int{1, 2, 3} {
					if conc > nseq {
						continue
					}
					if tier != "thorough" && nseq == 4 && conc == 3 && nf == 3 {
						continue
					}
					var seqs []SeqSpec
					for i := 0; i < nseq; i++ {
						if mask&(1<<i) != 0 {
							seqs = append(seqs, Seq(A(Perm)))
						} else {
							seqs = append(seqs, Seq(A()))
						}
					}
					ps := PlanSpec{Blocks: []BlockSpec{{Seqs: seqs, Conc: conc, Tol: tol}, {Seqs: okSeqs(1, 1)}}}
					out = append(out, &Scenario{Family: "F-tol", Name: fmt.Sprintf("tol-n%d-m%02d-t%d-c%d", nseq, mask, tol, conc), Plans: []PlanSpec{ps}})
				}
			}
		}
	}
	return out
}

func init() {
	register(&PropDef{
		ID:    "C03",
		Level: "model_checking",
		Rule: "family F-tol (2-4(5) sequences, every placement of 1-3 failing sequences, t in {-1,0,1,2} and, up to 3 sequences, the other negative values -2 and MinInt32, c in {1,2,3}, followed by a second block), F-chk, sharp scenarios and the block-level part of F-cont (a continuous check of the block failing at its k-th run); " +
			"every order of visible operations within the deviation bound; state predicates over the event log (which sequences ended, which were started) and the final stored plan; " +
			"distinct_nontrivial = distinct states in which two or more logical threads were enabled",
		Assumptions: []string{"a free worker-pool runner always exists (64 runners)", "I/O granularity", "a block interrupted by a plan-level continuous-check failure is exempt from 'Failed exactly when' (the statement is silent on aborted blocks)"},
		NewMon:      func(sc *Scenario) Monitor { return monC03{} },
		Items: func(tier string) []WorkItem {
			var items []WorkItem
			b := 1
			if tier == "thorough" {
				b = 3
			}
			for _, sc := range FamilyTol(tier) {
				items = append(items, explore("C03", sc, b, true))
			}
			// the tolerance grid again under the second internal scheduling policy (a woken goroutine runs before its waker
			// goes on): slot release, failure count and launch loop hand over in the opposite order
			for _, sc := range wakeTwins(FamilyTol(tier)) {
				items = append(items, explore("C03", sc, b, true))
			}
			for _, sc := range FamilyChk(tier) {
				items = append(items, explore("C03", sc, b-1+0, true))
			}
			for _, sc := range FamilySharp(tier) {
				if sc.Name == "sharp-launch-tol-c3" && tier != "thorough" {
					items = append(items, explore("C03", sc, b, true)) // five sequences, c=3: bound 2 does not finish within the quick cap
					continue
				}
				items = append(items, explore("C03", sc, b+1, true))
			}
			// "or one of its checks failed": a continuous check of the block failing at its k-th run, whatever the
			// sequences do (quick: every deviation costs, as in C07; thorough adds the free switches)
			for _, sc := range FamilyCont(tier) {
				if !strings.HasPrefix(sc.Name, "cont-block-") && !strings.HasPrefix(sc.Name, "cont-min-block-") {
					continue
				}
				if tier == "thorough" {
					items = append(items, exploreCap("C03", sc, b-1, true, 300))
				} else {
					items = append(items, exploreCap("C03", sc, 1, false, 30))
				}
			}
			// the tolerance across a crash: every durable state of the failing-sequence scenarios is a crash point
			var crash []*Scenario
			for _, sc := range FamilyCrash(tier) {
				if strings.Contains(sc.Name, "2fail") || (strings.Contains(sc.Name, "crash-b") && !strings.HasSuffix(sc.Name, "f-1")) {
					crash = append(crash, sc)
				}
			}
			items = append(items, crashItems("C03", tier, crash)...)
			return items
		},
	})
}
