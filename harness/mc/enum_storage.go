package mc

import (
	"bytes"
	"context"
	"fmt"
	"os"
	"reflect"
	"strings"
	"time"

	"github.com/element-of-surprise/coercion/plugins"
	"github.com/element-of-surprise/coercion/plugins/registry"
	"github.com/element-of-surprise/coercion/workflow"
	"github.com/element-of-surprise/coercion/workflow/storage"
	"github.com/element-of-surprise/coercion/workflow/storage/sqlite"
	"github.com/google/uuid"
	bctx "github.com/gostdlib/base/context"
	"github.com/gostdlib/base/retry/exponential"
)

// ---------------------------------------------------------------------------------------------
// Plugins with two different typed request/response pairs (the stores decode through plugin.Request()/Response()).

type TReq struct {
	N    int
	List []string
	M    map[string]int
}
type TResp struct {
	OK   bool
	Vals []int
}

type typedPlug struct{ simplePlug }

func (p *typedPlug) ValidateReq(req any) error {
	if _, ok := req.(TReq); !ok {
		return fmt.Errorf("bad request type %T", req)
	}
	return nil
}
func (p *typedPlug) Request() any  { return TReq{} }
func (p *typedPlug) Response() any { return TResp{} }
func (p *typedPlug) RetryPolicy() exponential.Policy {
	return p.simplePlug.RetryPolicy()
}

// ptypedPlug announces its response as a POINTER to a struct: the stores then decode into what Response() hands out.
type ptypedPlug struct{ typedPlug }

func (p *ptypedPlug) Response() any { return &TResp{} }

func storageRegistry() *registry.Register {
	reg := registry.New()
	reg.MustRegister(&simplePlug{name: "act"})
	reg.MustRegister(&simplePlug{name: "chk", check: true})
	reg.MustRegister(&typedPlug{simplePlug{name: "typed"}})
	reg.MustRegister(&ptypedPlug{typedPlug{simplePlug{name: "ptyped"}}})
	return reg
}

// ---------------------------------------------------------------------------------------------
// Plans for the storage enumerators: built from a small spec, with ids and pristine state as Submit would set them.

type storeShape struct {
	Blocks  int `json:"blocks"`  // 1..2
	Seqs    int `json:"seqs"`    // 1..2
	Actions int `json:"actions"` // 1..2
	Checks  int `json:"checks"`  // 0 none, 1..5 one plan-level group, 6..10 one block-level group, 11 all
	Variant int `json:"variant"` // field alphabet selector
}

func (s storeShape) String() string {
	return fmt.Sprintf("b%ds%da%dc%dv%d", s.Blocks, s.Seqs, s.Actions, s.Checks, s.Variant)
}

var baseTime = time.Date(2024, 5, 6, 7, 8, 9, 123456789, time.UTC)

func (s storeShape) action(name string, check bool, n int) *workflow.Action {
	a := &workflow.Action{ID: workflow.NewV7(), Name: name, Descr: "d:" + name, Plugin: "act", Timeout: 30 * time.Second, Req: SReq{Arg: name}, State: &workflow.State{}}
	if check {
		a.Plugin = "chk"
	}
	v := s.Variant + n
	if v%3 == 1 && !check {
		a.Plugin = "typed"
		a.Req = TReq{N: v, List: []string{"x", name}, M: map[string]int{"k": v}}
	}
	if v%3 == 2 && !check {
		a.Plugin = "ptyped"
		a.Req = TReq{N: v, List: []string{"y", name}, M: map[string]int{"p": v}}
	}
	if v%2 == 1 {
		a.Key = workflow.NewV7()
		a.Retries = 1 + v%3
		a.Timeout = time.Duration(5+v) * time.Second
	}
	return a
}

func (s storeShape) checks(name string, n int) *workflow.Checks {
	c := &workflow.Checks{ID: workflow.NewV7(), State: &workflow.State{}}
	if (s.Variant+n)%2 == 1 {
		c.Key = workflow.NewV7()
		c.Delay = time.Duration(7+n) * time.Second
	}
	for i := 0; i < 1+(s.Variant+n)%2; i++ {
		c.Actions = append(c.Actions, s.action(fmt.Sprintf("%s/a%d", name, i), true, n+i))
	}
	return c
}

func (s storeShape) build() *workflow.Plan {
	v := s.Variant
	p := &workflow.Plan{ID: workflow.NewV7(), Name: fmt.Sprintf("plan-%s", s), Descr: "descr", State: &workflow.State{}, SubmitTime: baseTime.Add(time.Duration(v) * time.Millisecond)}
	if v%2 == 1 {
		p.GroupID = workflow.NewV7()
		p.Meta = []byte(fmt.Sprintf("meta-%d", v))
	}
	plan := func(g int) bool { return s.Checks == g || s.Checks == 11 }
	if plan(1) {
		p.BypassChecks = s.checks("p/by", 1)
	}
	if plan(2) {
		p.PreChecks = s.checks("p/pre", 2)
	}
	if plan(3) {
		p.ContChecks = s.checks("p/cont", 3)
	}
	if plan(4) {
		p.PostChecks = s.checks("p/post", 4)
	}
	if plan(5) {
		p.DeferredChecks = s.checks("p/def", 5)
	}
	for bi := 0; bi < s.Blocks; bi++ {
		bn := fmt.Sprintf("b%d", bi)
		b := &workflow.Block{ID: workflow.NewV7(), Name: bn, Descr: "d:" + bn, Concurrency: 1, State: &workflow.State{}}
		if (v+bi)%2 == 1 {
			b.Key = workflow.NewV7()
			b.EntranceDelay, b.ExitDelay = time.Duration(1+v)*time.Second, 1500*time.Millisecond
			b.Concurrency = 3
			b.ToleratedFailures = 2
		} else if v%3 == 2 {
			b.ToleratedFailures = -1
		}
		blk := func(g int) bool { return bi == 0 && (s.Checks == 5+g || s.Checks == 11) }
		if blk(1) {
			b.BypassChecks = s.checks(bn+"/by", 6)
		}
		if blk(2) {
			b.PreChecks = s.checks(bn+"/pre", 7)
		}
		if blk(3) {
			b.ContChecks = s.checks(bn+"/cont", 8)
		}
		if blk(4) {
			b.PostChecks = s.checks(bn+"/post", 9)
		}
		if blk(5) {
			b.DeferredChecks = s.checks(bn+"/def", 10)
		}
		for si := 0; si < s.Seqs; si++ {
			sn := fmt.Sprintf("%s/s%d", bn, si)
			sq := &workflow.Sequence{ID: workflow.NewV7(), Name: sn, Descr: "d:" + sn, State: &workflow.State{}}
			if (v+si)%2 == 0 {
				sq.Key = workflow.NewV7()
			}
			for ai := 0; ai < s.Actions; ai++ {
				sq.Actions = append(sq.Actions, s.action(fmt.Sprintf("%s/a%d", sn, ai), false, bi*4+si*2+ai))
			}
			b.Sequences = append(b.Sequences, sq)
		}
		p.Blocks = append(p.Blocks, b)
	}
	// Ids need not grow with the position (plans stored through the vault directly, imported plans): in the odd variants
	// the ids inside every container descend, and the blocks and sequences swap theirs, so that "order by id" is never
	// the declared order.
	if v%2 == 1 {
		revActs := func(as []*workflow.Action) {
			for i, j := 0, len(as)-1; i < j; i, j = i+1, j-1 {
				as[i].ID, as[j].ID = as[j].ID, as[i].ID
			}
		}
		for _, c := range []*workflow.Checks{p.BypassChecks, p.PreChecks, p.ContChecks, p.PostChecks, p.DeferredChecks} {
			if c != nil {
				revActs(c.Actions)
			}
		}
		for i, j := 0, len(p.Blocks)-1; i < j; i, j = i+1, j-1 {
			p.Blocks[i].ID, p.Blocks[j].ID = p.Blocks[j].ID, p.Blocks[i].ID
		}
		for _, b := range p.Blocks {
			for _, c := range []*workflow.Checks{b.BypassChecks, b.PreChecks, b.ContChecks, b.PostChecks, b.DeferredChecks} {
				if c != nil {
					revActs(c.Actions)
				}
			}
			for i, j := 0, len(b.Sequences)-1; i < j; i, j = i+1, j-1 {
				b.Sequences[i].ID, b.Sequences[j].ID = b.Sequences[j].ID, b.Sequences[i].ID
			}
			for _, sq := range b.Sequences {
				revActs(sq.Actions)
			}
		}
	}
	// what Submit does: every object knows its plan
	for _, o := range listObjects(p) {
		if sp, ok := o.obj.(interface{ SetPlanID(uuid.UUID) }); ok {
			sp.SetPlanID(p.ID)
		}
	}
	return p
}

// copyPlanIDs builds the same shape again (fresh objects = the reference copy) and gives it the ids, keys and group of p.
func refCopy(s storeShape, p *workflow.Plan) *workflow.Plan {
	r := s.build()
	po, ro := listObjects(p), listObjects(r)
	for i := range po {
		switch t := po[i].obj.(type) {
		case *workflow.Plan:
			x := ro[i].obj.(*workflow.Plan)
			x.ID, x.GroupID = t.ID, t.GroupID
		case *workflow.Checks:
			x := ro[i].obj.(*workflow.Checks)
			x.ID, x.Key = t.ID, t.Key
		case *workflow.Block:
			x := ro[i].obj.(*workflow.Block)
			x.ID, x.Key = t.ID, t.Key
		case *workflow.Sequence:
			x := ro[i].obj.(*workflow.Sequence)
			x.ID, x.Key = t.ID, t.Key
		case *workflow.Action:
			x := ro[i].obj.(*workflow.Action)
			x.ID, x.Key = t.ID, t.Key
		}
	}
	return r
}

// ---------------------------------------------------------------------------------------------
// Structural comparison (what a reader can observe).

func errEqual(a, b *plugins.Error) bool {
	if a == nil || b == nil {
		return a == b
	}
	return a.Code == b.Code && a.Message == b.Message && a.Permanent == b.Permanent && errEqual(a.Wrapped, b.Wrapped)
}

func stateDiff(a, b *workflow.State) string {
	if a == nil || b == nil {
		if a != b {
			return fmt.Sprintf("state %v vs %v", a, b)
		}
		return ""
	}
	if a.Status != b.Status {
		return fmt.Sprintf("status %s vs %s", a.Status, b.Status)
	}
	if !a.Start.Equal(b.Start) {
		return fmt.Sprintf("start %s vs %s", a.Start.Format(time.RFC3339Nano), b.Start.Format(time.RFC3339Nano))
	}
	if !a.End.Equal(b.End) {
		return fmt.Sprintf("end %s vs %s", a.End.Format(time.RFC3339Nano), b.End.Format(time.RFC3339Nano))
	}
	return ""
}

// planDiff returns ("", "") when got equals want, else (field class, message). got is what the store returned.
func planDiff(got, want *workflow.Plan) (field, msg string) {
	if got == nil {
		return "plan", "Read returned a nil plan"
	}
	d := func(field, format string, a ...any) (string, string) { return field, fmt.Sprintf(format, a...) }
	if got.ID != want.ID || got.Name != want.Name || got.Descr != want.Descr {
		return d("plan.definition", "plan id/name/descr: got %s %q %q want %s %q %q", got.ID, got.Name, got.Descr, want.ID, want.Name, want.Descr)
	}
	if got.GroupID != want.GroupID {
		return d("plan.group", "group id %s vs %s", got.GroupID, want.GroupID)
	}
	if !bytes.Equal(got.Meta, want.Meta) {
		return d("plan.meta", "meta %q vs %q", got.Meta, want.Meta)
	}
	if !got.SubmitTime.Equal(want.SubmitTime) {
		return d("plan.submittime", "submit time %s vs %s", got.SubmitTime.Format(time.RFC3339Nano), want.SubmitTime.Format(time.RFC3339Nano))
	}
	if got.Reason != want.Reason {
		return d("plan.reason", "reason %s vs %s", got.Reason, want.Reason)
	}
	if s := stateDiff(got.State, want.State); s != "" {
		return d("plan.state", "plan %s", s)
	}
	go_, wo := listObjects(got), listObjects(want)
	if len(go_) != len(wo) {
		return d("structure", "the read plan has %d objects, the written one %d", len(go_), len(wo))
	}
	for i := range wo {
		if go_[i].kind != wo[i].kind {
			return d("structure", "object %d is a %s, want a %s", i, go_[i].kind, wo[i].kind)
		}
		switch w := wo[i].obj.(type) {
		case *workflow.Checks:
			g := go_[i].obj.(*workflow.Checks)
			if g.ID != w.ID || g.Key != w.Key || g.Delay != w.Delay {
				return d("checks.definition", "checks %d: id/key/delay %s %s %v vs %s %s %v", i, g.ID, g.Key, g.Delay, w.ID, w.Key, w.Delay)
			}
			if s := stateDiff(g.State, w.State); s != "" {
				return d("checks.state", "checks %d: %s", i, s)
			}
		case *workflow.Block:
			g := go_[i].obj.(*workflow.Block)
			if g.ID != w.ID || g.Key != w.Key || g.Name != w.Name || g.Descr != w.Descr {
				return d("block.definition", "block %q: id/key/name/descr differ (got %q %s)", w.Name, g.Name, g.ID)
			}
			if g.EntranceDelay != w.EntranceDelay || g.ExitDelay != w.ExitDelay || g.Concurrency != w.Concurrency || g.ToleratedFailures != w.ToleratedFailures {
				return d("block.settings", "block %q: delays/concurrency/tolerance %v %v %d %d vs %v %v %d %d", w.Name, g.EntranceDelay, g.ExitDelay, g.Concurrency, g.ToleratedFailures, w.EntranceDelay, w.ExitDelay, w.Concurrency, w.ToleratedFailures)
			}
			if s := stateDiff(g.State, w.State); s != "" {
				return d("block.state", "block %q: %s", w.Name, s)
			}
		case *workflow.Sequence:
			g := go_[i].obj.(*workflow.Sequence)
			if g.ID != w.ID || g.Key != w.Key || g.Name != w.Name || g.Descr != w.Descr {
				return d("sequence.definition", "sequence %q: got %q id %s key %s", w.Name, g.Name, g.ID, g.Key)
			}
			if s := stateDiff(g.State, w.State); s != "" {
				return d("sequence.state", "sequence %q: %s", w.Name, s)
			}
		case *workflow.Action:
			g := go_[i].obj.(*workflow.Action)
			if g.ID != w.ID || g.Key != w.Key || g.Name != w.Name || g.Descr != w.Descr || g.Plugin != w.Plugin {
				return d("action.definition", "action %q: got %q plugin %q id %s (order of actions?)", w.Name, g.Name, g.Plugin, g.ID)
			}
			if g.Timeout != w.Timeout || g.Retries != w.Retries {
				return d("action.settings", "action %q: timeout/retries %v %d vs %v %d", w.Name, g.Timeout, g.Retries, w.Timeout, w.Retries)
			}
			if !reflect.DeepEqual(g.Req, w.Req) {
				return d("action.request", "action %q: request %#v vs %#v", w.Name, g.Req, w.Req)
			}
			if s := stateDiff(g.State, w.State); s != "" {
				return d("action.state", "action %q: %s", w.Name, s)
			}
			if len(g.Attempts) != len(w.Attempts) {
				return d("action.attempts.count", "action %q: %d attempts read, %d written", w.Name, len(g.Attempts), len(w.Attempts))
			}
			for j := range w.Attempts {
				ga, wa := g.Attempts[j], w.Attempts[j]
				if !reflect.DeepEqual(ga.Resp, wa.Resp) {
					return d("action.attempts.resp", "action %q attempt %d: response %#v vs %#v", w.Name, j, ga.Resp, wa.Resp)
				}
				if !errEqual(ga.Err, wa.Err) {
					return d("action.attempts.err", "action %q attempt %d: error %+v vs %+v", w.Name, j, ga.Err, wa.Err)
				}
				if !ga.Start.Equal(wa.Start) || !ga.End.Equal(wa.End) {
					return d("action.attempts.time", "action %q attempt %d: times %s..%s vs %s..%s", w.Name, j, ga.Start.Format(time.RFC3339Nano), ga.End.Format(time.RFC3339Nano), wa.Start.Format(time.RFC3339Nano), wa.End.Format(time.RFC3339Nano))
				}
			}
		}
	}
	return "", ""
}

// ---------------------------------------------------------------------------------------------
// Update operations.

type updOp struct {
	Obj  int `json:"obj"`  // object index in walking order
	Kind int `json:"kind"` // which state to write (see applyUpd)
}

// number of state kinds: 0 running(start) 1 completed(start,end ns) 2 failed 3 reset 4 attempts[ok] 5 attempts[err] 6 attempts[err(wrapped),ok] 7 attempts cleared(running)
const updKinds = 8

func respFor(a *workflow.Action) any { return respN(a, 0) }

// respN: the response of the n-th attempt (every attempt gets a different one).
func respN(a *workflow.Action, n int) any {
	switch a.Plugin {
	case "typed":
		return TResp{OK: n%2 == 0, Vals: []int{1, 2, n}}
	case "ptyped":
		return &TResp{OK: n%2 == 0, Vals: []int{3, n}}
	}
	return SResp{Arg: fmt.Sprintf("resp%d:%s", n, a.Name)}
}

// applyUpd mutates the object (the same way on the written plan and on the reference) and reports whether the op applies.
func applyUpd(p *workflow.Plan, op updOp, step int) (obj objRef, ok bool) {
	objs := listObjects(p)
	if op.Obj >= len(objs) {
		return objRef{}, false
	}
	o := objs[op.Obj]
	t := baseTime.Add(time.Duration(step+1)*time.Minute + time.Duration(step*37+1)*time.Nanosecond)
	var st *workflow.State
	switch x := o.obj.(type) {
	case *workflow.Plan:
		st = x.State
	case *workflow.Checks:
		st = x.State
	case *workflow.Block:
		st = x.State
	case *workflow.Sequence:
		st = x.State
	case *workflow.Action:
		st = x.State
	}
	a, isAction := o.obj.(*workflow.Action)
	switch op.Kind {
	case 0:
		st.Status, st.Start, st.End = workflow.Running, t, time.Time{}
	case 1:
		st.Status, st.Start, st.End = workflow.Completed, t, t.Add(1234567*time.Nanosecond)
		if pl, ok := o.obj.(*workflow.Plan); ok {
			pl.Reason = workflow.FRUnknown
		}
	case 2:
		st.Status, st.Start, st.End = workflow.Failed, t, t.Add(time.Second)
		if pl, ok := o.obj.(*workflow.Plan); ok {
			pl.Reason = workflow.FRPostCheck
		}
	case 3:
		st.Status, st.Start, st.End = workflow.NotStarted, time.Time{}, time.Time{}
		if isAction {
			a.Attempts = nil
		}
	case 4, 5, 6, 7:
		if !isAction {
			return o, false
		}
		switch op.Kind {
		case 4:
			a.Attempts = []*workflow.Attempt{{Resp: respFor(a), Start: t, End: t.Add(time.Millisecond)}}
			st.Status, st.Start, st.End = workflow.Completed, t, t.Add(time.Millisecond)
		case 5:
			a.Attempts = []*workflow.Attempt{{Err: &plugins.Error{Code: 3, Message: "boom", Permanent: true}, Start: t, End: t.Add(time.Millisecond)}}
			st.Status, st.Start, st.End = workflow.Failed, t, t.Add(time.Millisecond)
		case 6:
			a.Attempts = []*workflow.Attempt{
				// a partial result next to the error, then a different final result: every attempt keeps its own response
				{Resp: respN(a, 1), Err: &plugins.Error{Code: 7, Message: "outer", Wrapped: &plugins.Error{Code: 8, Message: "inner", Permanent: true}}, Start: t, End: t.Add(time.Millisecond)},
				// an error without any detail is still an error: the attempt failed (recovery decides by Err != nil)
				{Err: &plugins.Error{}, Start: t.Add(500 * time.Millisecond), End: t.Add(600 * time.Millisecond)},
				{Resp: respN(a, 2), Start: t.Add(time.Second), End: t.Add(2 * time.Second)}}
			st.Status, st.Start, st.End = workflow.Completed, t, t.Add(2*time.Second)
		case 7:
			a.Attempts = nil
			st.Status, st.Start, st.End = workflow.Running, t, time.Time{}
		}
	}
	return o, true
}

func writeObj(ctx context.Context, v storage.Vault, o objRef) error {
	switch x := o.obj.(type) {
	case *workflow.Plan:
		return v.UpdatePlan(ctx, x)
	case *workflow.Checks:
		return v.UpdateChecks(ctx, x)
	case *workflow.Block:
		return v.UpdateBlock(ctx, x)
	case *workflow.Sequence:
		return v.UpdateSequence(ctx, x)
	case *workflow.Action:
		return v.UpdateAction(ctx, x)
	}
	return fmt.Errorf("unknown object %T", o.obj)
}

// vaultFactory creates a fresh empty vault.
type vaultFactory struct {
	name string
	new  func(ctx context.Context, reg *registry.Register) (storage.Vault, error)
}

var sqliteSeq int

var sqliteFactory = vaultFactory{name: "sqlite", new: func(ctx context.Context, reg *registry.Register) (storage.Vault, error) {
	sqliteSeq++
	return sqlite.New(ctx, fmt.Sprintf("enum-%d", sqliteSeq), reg, sqlite.WithInMemory())
}}

// sqliteFileFactory: the same store on a file (WAL mode, the store's own connection pool for files) in a directory of
// its own, which dropVault removes again. Used where the backing matters (C14's create/delete sequences).
var sqliteFileDirs = map[storage.Vault]string{}

var sqliteFileFactory = vaultFactory{name: "sqlite-file", new: func(ctx context.Context, reg *registry.Register) (storage.Vault, error) {
	dir, err := os.MkdirTemp("", "verif-c14-file-")
	if err != nil {
		return nil, err
	}
	v, err := sqlite.New(ctx, dir, reg)
	if err != nil {
		os.RemoveAll(dir)
		return nil, err
	}
	sqliteFileDirs[v] = dir
	return v, nil
}}

// dropVault closes a vault and removes what its factory created on disk.
func dropVault(ctx context.Context, v storage.Vault) {
	v.Close(ctx)
	if dir, ok := sqliteFileDirs[v]; ok {
		delete(sqliteFileDirs, v)
		os.RemoveAll(dir)
	}
}

func vaultFactories() []vaultFactory {
	fs := []vaultFactory{sqliteFactory}
	if cosmosFactory != nil {
		fs = append(fs, *cosmosFactory)
	}
	return fs
}

// cosmosFactory is set by the verif-tagged file when the overlay-added constructor is available.
var cosmosFactory *vaultFactory

// cosmosPagedFactories: the CosmosDB fake with paged query answers (C15 only).
var cosmosPagedFactories []vaultFactory

// normalizeForVault removes differences that are decided by the CosmosDB service and not by the package: the order of
// the actions of a group comes from the query's "ORDER BY c.pos", which the package's fake client does not evaluate.
// For cosmosdb the actions of every checks group and sequence of the read plan are put into the order of the written
// one (by id) before comparing; sqlite is compared as read.
func normalizeForVault(vault string, got, want *workflow.Plan) {
	if vault != "cosmosdb" || got == nil {
		return
	}
	reorder := func(g, w []*workflow.Action) {
		if len(g) != len(w) {
			return
		}
		pos := map[uuid.UUID]int{}
		for i, a := range w {
			pos[a.ID] = i
		}
		out := make([]*workflow.Action, len(g))
		for _, a := range g {
			i, ok := pos[a.ID]
			if !ok || out[i] != nil {
				return
			}
			out[i] = a
		}
		copy(g, out)
	}
	gc, wc := listObjects(got), listObjects(want)
	if len(gc) != len(wc) {
		return
	}
	for i := range wc {
		switch w := wc[i].obj.(type) {
		case *workflow.Checks:
			if g, ok := gc[i].obj.(*workflow.Checks); ok {
				reorder(g.Actions, w.Actions)
			}
		case *workflow.Sequence:
			if g, ok := gc[i].obj.(*workflow.Sequence); ok {
				reorder(g.Actions, w.Actions)
			}
		}
	}
}

// storeCase is one input of C13.
type storeCase struct {
	Vault string     `json:"vault"`
	Shape storeShape `json:"shape"`
	Ops   []updOp    `json:"ops"`
}

func (c storeCase) String() string { return fmt.Sprintf("%s %s ops=%v", c.Vault, c.Shape, c.Ops) }

func factoryByName(name string) *vaultFactory {
	for _, f := range append(append(vaultFactories(), cosmosPagedFactories...), sqliteFileFactory) {
		if f.name == name {
			return &f
		}
	}
	return nil
}

// checkStoreCase: Create, Read, then every update followed by a Read, compared with the reference copy; finally
// reads of a never created id, Delete, and a read of the deleted id.
func checkStoreCase(c storeCase) (rule, sig, msg string) {
	defer func() {
		if r := recover(); r != nil {
			rule, sig, msg = "storage-panicked", c.Vault, fmt.Sprintf("%s: panic: %v", c, r)
		}
	}()
	f := factoryByName(c.Vault)
	if f == nil {
		return "harness", "vault", "unknown vault " + c.Vault
	}
	ctx := bctx.Background()
	reg := storageRegistry()
	v, err := f.new(ctx, reg)
	if err != nil {
		return "harness", "vault", err.Error()
	}
	defer v.Close(ctx)
	p := c.Shape.build()
	ref := refCopy(c.Shape, p)
	if err := v.Create(ctx, p); err != nil {
		return "create-failed", c.Vault, fmt.Sprintf("%s: Create: %v", c, err)
	}
	got, err := v.Read(ctx, p.ID)
	if err != nil {
		return "read-failed", c.Vault, fmt.Sprintf("%s: Read after Create: %v", c, err)
	}
	normalizeForVault(c.Vault, got, ref)
	if field, m := planDiff(got, ref); field != "" {
		return "read-differs-from-written", c.Vault + ":" + field, fmt.Sprintf("%s: after Create: %s", c, m)
	}
	for i, op := range c.Ops {
		o, ok := applyUpd(p, op, i)
		if !ok {
			continue
		}
		applyUpd(ref, op, i)
		if err := writeObj(ctx, v, o); err != nil {
			return "update-failed", c.Vault + ":" + o.kind, fmt.Sprintf("%s: update %d (%s kind %d): %v", c, i, o.kind, op.Kind, err)
		}
		got, err := v.Read(ctx, p.ID)
		if err != nil {
			return "read-failed", c.Vault, fmt.Sprintf("%s: Read after update %d: %v", c, i, err)
		}
		normalizeForVault(c.Vault, got, ref)
		if field, m := planDiff(got, ref); field != "" {
			return "read-differs-from-written", c.Vault + ":" + field, fmt.Sprintf("%s: after update %d (%s kind %d): %s", c, i, o.kind, op.Kind, m)
		}
	}
	if len(c.Ops) <= 1 {
		unknown := workflow.NewV7()
		if pl, err := v.Read(ctx, unknown); err == nil {
			return "read-of-unknown-id-returns-plan", c.Vault, fmt.Sprintf("%s: Read of a never created id returned %v and no error", c, pl != nil)
		}
		if err := v.Delete(ctx, p.ID); err != nil {
			return "delete-failed", c.Vault, fmt.Sprintf("%s: Delete: %v", c, err)
		}
		if pl, err := v.Read(ctx, p.ID); err == nil {
			return "read-of-deleted-id-returns-plan", c.Vault, fmt.Sprintf("%s: Read of the deleted plan returned %v and no error", c, pl != nil)
		}
	}
	return "", "", ""
}

func storeShapes(tier string) []storeShape {
	var out []storeShape
	maxV := 3
	if tier == "thorough" {
		maxV = 6
	}
	for b := 1; b <= 2; b++ {
		for s := 1; s <= 2; s++ {
			for a := 1; a <= 2; a++ {
				for c := 0; c <= 11; c++ {
					for v := 0; v < maxV; v++ {
						out = append(out, storeShape{Blocks: b, Seqs: s, Actions: a, Checks: c, Variant: v})
					}
				}
			}
		}
	}
	return out
}

// checkFailedCreateUnreadable: a Create that returned an error did not create the id, so Read must fail and Exists
// must say no ("reading an id that was never created returns an error and never an empty plan" - nor a partial one).
func checkFailedCreateUnreadable(c createFaultCase) (rule, sig, msg string) {
	defer func() {
		if r := recover(); r != nil {
			rule, sig, msg = "storage-panicked", c.Vault, fmt.Sprintf("%s: panic: %v", c, r)
		}
	}()
	ctx := bctx.Background()
	reg := createRegistry()
	f := factoryByName(c.Vault)
	v, err := f.new(ctx, reg)
	if err != nil {
		return "harness", "vault", err.Error()
	}
	defer v.Close(ctx)
	p := c.Shape.build()
	n := 0
	where := ""
	for _, o := range listObjects(p) {
		if a, ok := o.obj.(*workflow.Action); ok {
			if n == c.Pos {
				a.Req = BadReq{Arg: "x", C: make(chan int)}
				a.Plugin, where = "bad", "sequence-action"
				if o.inChecks {
					a.Plugin, where = "badchk", "check-action"
				}
			}
			n++
		}
	}
	if where == "" {
		return "", "", ""
	}
	if err := v.Create(ctx, p); err == nil {
		return "", "", "" // C14's concern
	}
	if got, err := v.Read(ctx, p.ID); err == nil {
		nobj := 0
		if got != nil {
			nobj = len(listObjects(got))
		}
		return "never-created-id-readable", c.Vault + ":" + where, fmt.Sprintf("%s: Create returned an error, yet Read of that id returns no error and a plan of %d objects (submitted: %d)", c, nobj, len(listObjects(p)))
	}
	if ok, err := v.Exists(ctx, p.ID); err == nil && ok {
		return "never-created-id-exists", c.Vault + ":" + where, fmt.Sprintf("%s: Create returned an error, yet Exists of that id is true", c)
	}
	return "", "", ""
}

func enumC13(env *EnumEnv, it *WorkItem) *EnumResult {
	res := &EnumResult{Exhaustive: true}
	reported := map[string]bool{}
	idx := 0
	phase, expired, skipped := "", false, 0
	eval := func(c storeCase) {
		idx++
		if idx%it.NShards != it.Shard {
			return
		}
		if expired || env.Expired() {
			if !expired {
				expired = true
				res.Exhaustive = false
				res.Notes = append(res.Notes, fmt.Sprintf("budget reached in phase %q after %d evaluations of this shard; everything before that phase was covered completely", phase, res.Evaluations))
			}
			skipped++
			return
		}
		res.Evaluations++
		if len(c.Ops) > 0 || c.Shape != (storeShape{Blocks: 1, Seqs: 1, Actions: 1}) {
			res.Distinct++
		}
		if rule, sig, msg := checkStoreCase(c); rule != "" {
			k := rule + "|" + sig
			if !reported[k] {
				reported[k] = true
				res.Found = append(res.Found, &EnumFound{V: Violation{Property: "C13", Rule: rule, Signature: sig, Msg: msg}, Input: c})
			}
		}
		if len(res.Samples) < 2 && len(c.Ops) >= 2 && idx%1013 == 0 {
			res.Samples = append(res.Samples, c.String())
		}
	}
	depth := 3
	if env.Tier == "thorough" {
		depth = 4
	}
	small := storeShape{Blocks: 1, Seqs: 1, Actions: 1, Checks: 2, Variant: 1}
	var ops []updOp
	for o := 0; o < len(listObjects(small.build())); o++ {
		for k := 0; k < updKinds; k++ {
			if _, ok := applyUpd(small.build(), updOp{o, k}, 0); ok {
				ops = append(ops, updOp{o, k})
			}
		}
	}
	for _, f := range vaultFactories() {
		// (1) every shape x variant: Create/Read round trip, unknown and deleted ids, and one update of every kind on every object
		phase = f.name + ": shapes and single updates"
		for _, sh := range storeShapes(env.Tier) {
			eval(storeCase{Vault: f.name, Shape: sh})
			n := len(listObjects(sh.build()))
			if sh.Variant == 0 || env.Tier == "thorough" {
				for o := 0; o < n; o++ {
					for k := 0; k < updKinds; k++ {
						eval(storeCase{Vault: f.name, Shape: sh, Ops: []updOp{{o, k}}})
					}
				}
			}
		}
		// (3) an id whose Create FAILED was never created: an unencodable request at every action position of every shape
		phase = f.name + ": failed creates"
		nfail := 0
		for _, sh := range storeShapes(env.Tier) {
			if sh.Variant != 0 && env.Tier != "thorough" {
				continue
			}
			nact := 0
			for _, o := range listObjects(sh.build()) {
				if _, ok := o.obj.(*workflow.Action); ok {
					nact++
				}
			}
			for pos := 0; pos < nact; pos++ {
				idx++
				if idx%it.NShards != it.Shard || expired {
					continue
				}
				res.Evaluations++
				res.Distinct++
				nfail++
				c := createFaultCase{Vault: f.name, Shape: sh, Pos: pos}
				if rule, sig, msg := checkFailedCreateUnreadable(c); rule != "" {
					k := rule + "|" + sig
					if !reported[k] {
						reported[k] = true
						res.Found = append(res.Found, &EnumFound{V: Violation{Property: "C13", Rule: rule, Signature: sig, Msg: msg}, Input: map[string]any{"failedCreate": c}})
					}
				}
			}
		}
		res.Notes = append(res.Notes, fmt.Sprintf("%s: %d shapes, %d failed Creates (this shard)", f.name, len(storeShapes(env.Tier)), nfail))
	}
	// (2) all update sequences on a small plan with one check group (6 objects + check action), shortest first: every
	// length is finished for both vaults before the next one begins
	for L := 2; L <= depth; L++ {
		for _, f := range vaultFactories() {
			phase = fmt.Sprintf("%s: update sequences of length %d", f.name, L)
			var rec func(prefix []updOp)
			rec = func(prefix []updOp) {
				if len(prefix) == L {
					eval(storeCase{Vault: f.name, Shape: small, Ops: append([]updOp{}, prefix...)})
					return
				}
				for _, op := range ops {
					if expired {
						return
					}
					rec(append(prefix, op))
				}
			}
			rec(nil)
		}
		if !expired {
			res.Notes = append(res.Notes, fmt.Sprintf("all sequences of length %d over the update alphabet of %d operations done for every vault", L, len(ops)))
		}
	}
	if skipped > 0 {
		res.Notes = append(res.Notes, fmt.Sprintf("%d cases of this shard were not evaluated", skipped))
	}
	if cosmosFactory == nil {
		res.Notes = append(res.Notes, "cosmosdb (over its fake client) was not available in this build")
	}
	return res
}

func init() {
	register(&PropDef{
		ID:    "C13",
		Level: "exploration",
		Rule: "plan shapes from a grammar (1-2 blocks x 1-2 sequences x 1-2 actions x {no checks, each single group at plan level, each single group at block level, all ten groups}) x field variants (ids growing or descending with the position, meta, group id, keys, delays, concurrency, tolerance -1/0/2, timeouts, retries, three request/response type pairs, one announcing its response as a pointer); " +
			"for every shape: Create, Read, every single update kind on every object, Read of a never created id, Delete, Read of the deleted id; on a small plan ALL sequences of updates up to depth 3 (4) over {Running, Completed, Failed, reset, attempts [ok] / [err] / [response+err(wrapped), another response] / cleared} x every object, with a Read after every step; a Create that FAILS (request that cannot be encoded at every action position of every shape) leaves the id unreadable and non-existent; " +
			"oracle: structural equality (nanosecond times, typed requests/responses, wrapped errors, order) with a reference copy mutated in lock step; for both vaults when the CosmosDB fake is available; distinct_nontrivial = cases other than the minimal plan without updates; a process kill at every write-class system call of a Submit followed by the Delete of the same plan on a file-backed store (strace fault injection): after re-opening, the plan reads back complete or not at all, never hollowed out",
		Assumptions: []string{"CosmosDB is exercised over the package's own fake client only; a disagreement there counts only when traced to package code", "for CosmosDB the order of the actions inside a group is not checked: it comes from the service evaluating ORDER BY c.pos, which the fake client ignores", "an empty non-nil Meta slice and a nil one are the same definition"},
		Items:       func(tier string) []WorkItem { return append(shardItems("C13", 16), killItemsFor("C13")...) },
		Enum: func(env *EnumEnv, it *WorkItem) *EnumResult {
			if it.Enum == "kill" {
				return enumKill(env, it)
			}
			return enumC13(env, it)
		},
		ReplayInput: func(env *EnumEnv, raw []byte) []*Violation {
			var kc struct {
				Kill *int   `json:"kill"`
				Call string `json:"call"`
			}
			if err := jsonUnmarshal(raw, &kc); err == nil && kc.Kill != nil {
				return replayKill("C13", *kc.Kill, kc.Call)
			}
			var fc struct {
				FailedCreate *createFaultCase `json:"failedCreate"`
			}
			if err := jsonUnmarshal(raw, &fc); err == nil && fc.FailedCreate != nil {
				if rule, sig, msg := checkFailedCreateUnreadable(*fc.FailedCreate); rule != "" {
					return []*Violation{{Property: "C13", Rule: rule, Signature: sig, Msg: msg}}
				}
				return nil
			}
			var c storeCase
			if err := jsonUnmarshal(raw, &c); err != nil {
				return []*Violation{{Property: "C13", Rule: "bad-input", Msg: err.Error()}}
			}
			if rule, sig, msg := checkStoreCase(c); rule != "" {
				return []*Violation{{Property: "C13", Rule: rule, Signature: sig, Msg: msg}}
			}
			return nil
		},
	})
	_ = strings.TrimSpace
}
