// Package mc (import path verif/harness/mc/alt/mc) declares a type that PRINTS like the harness plugins' response type
// ("mc.Resp" with %T) and is a different type: a response of the wrong type that a check by name would accept.
package mc

type Resp struct {
	Path string
	N    int
}
