package mc

import (
	"context"
	"fmt"
	"strings"

	"github.com/element-of-surprise/coercion/workflow"
	"github.com/element-of-surprise/coercion/workflow/storage"
	"github.com/google/uuid"
)

// GateVault wraps a real storage.Vault; every call parks at a gate before it is delegated.
// Embedding the interface promotes the unexported marker method, so this type satisfies storage.Vault.
type GateVault struct {
	storage.Vault
	w *World
	// recovered: the store's own recovery pass (storage.Recovery, "must do some recovery operation before it can be used
	// after a failure") has been asked for and has returned; usedBefore names the first operation that came earlier.
	recovered  bool
	usedBefore string
}

func NewGateVault(w *World, inner storage.Vault) *GateVault { return &GateVault{Vault: inner, w: w} }

func (v *GateVault) gate(kind, path, detail string) *Gate {
	w := v.w
	w.mu.Lock()
	if !v.recovered && v.usedBefore == "" && kind != "C" {
		v.usedBefore = kind + " " + path
	}
	w.mu.Unlock()
	frames := engineFrames(3)
	w.mu.Lock()
	thread, site := w.threadFor(path, frames)
	w.mu.Unlock()
	g := &Gate{Thread: thread, Kind: kind, Path: path, Detail: detail, Site: site, Releasable: true}
	w.park(g, nil)
	return g
}

func (v *GateVault) path(id uuid.UUID) string {
	v.w.mu.Lock()
	defer v.w.mu.Unlock()
	if p, ok := v.w.PathOf[id]; ok {
		return p
	}
	return "?" + id.String()[:8]
}

func stateDetail(st *workflow.State, natt int) string {
	if st == nil {
		return "nil"
	}
	return fmt.Sprintf("%s,%d", st.Status, natt)
}

func copyState(st *workflow.State) *workflow.State {
	if st == nil {
		return nil
	}
	c := *st
	return &c
}

func copyAttempts(in []*workflow.Attempt) []*workflow.Attempt {
	if in == nil {
		return nil
	}
	out := make([]*workflow.Attempt, len(in))
	for i, a := range in {
		c := *a
		out[i] = &c
	}
	return out
}

func (v *GateVault) wrote(g *Gate, op, path string, st *workflow.State, natt int, snap any, err error) {
	w := v.w
	w.mu.Lock()
	e := Event{Kind: "W", Thread: g.Thread, Path: path, Out: op, NAtt: natt, Snap: snap}
	if st != nil {
		e.Status = st.Status.String()
	}
	if err != nil {
		e.Err = err.Error()
	}
	w.log(e)
	if err == nil {
		w.Writes = append(w.Writes, WriteRec{Step: w.Step, Gen: w.Gen, Op: op, Path: path, Obj: snap})
	}
	w.mu.Unlock()
}

func (v *GateVault) UpdatePlan(ctx context.Context, p *workflow.Plan) error {
	path := v.path(p.ID)
	g := v.gate("W", path, stateDetail(p.State, 0))
	snap := &workflow.Plan{ID: p.ID, Reason: p.Reason, State: copyState(p.State)}
	err := v.Vault.UpdatePlan(ctx, p)
	v.wrote(g, "UpdatePlan", path, snap.State, 0, snap, err)
	return err
}

func (v *GateVault) UpdateBlock(ctx context.Context, b *workflow.Block) error {
	path := v.path(b.ID)
	g := v.gate("W", path, stateDetail(b.State, 0))
	snap := &workflow.Block{ID: b.ID, State: copyState(b.State)}
	err := v.Vault.UpdateBlock(ctx, b)
	v.wrote(g, "UpdateBlock", path, snap.State, 0, snap, err)
	return err
}

func (v *GateVault) UpdateChecks(ctx context.Context, c *workflow.Checks) error {
	path := v.path(c.ID)
	g := v.gate("W", path, stateDetail(c.State, 0))
	snap := &workflow.Checks{ID: c.ID, State: copyState(c.State)}
	err := v.Vault.UpdateChecks(ctx, c)
	v.wrote(g, "UpdateChecks", path, snap.State, 0, snap, err)
	return err
}

func (v *GateVault) UpdateSequence(ctx context.Context, s *workflow.Sequence) error {
	path := v.path(s.ID)
	g := v.gate("W", path, stateDetail(s.State, 0))
	snap := &workflow.Sequence{ID: s.ID, State: copyState(s.State)}
	err := v.Vault.UpdateSequence(ctx, s)
	v.wrote(g, "UpdateSequence", path, snap.State, 0, snap, err)
	return err
}

func (v *GateVault) UpdateAction(ctx context.Context, a *workflow.Action) error {
	path := v.path(a.ID)
	g := v.gate("W", path, stateDetail(a.State, len(a.Attempts)))
	snap := &workflow.Action{ID: a.ID, State: copyState(a.State), Attempts: copyAttempts(a.Attempts)}
	err := v.Vault.UpdateAction(ctx, a)
	v.wrote(g, "UpdateAction", path, snap.State, len(snap.Attempts), snap, err)
	return err
}

func (v *GateVault) read(g *Gate, op, path string, err error) {
	e := Event{Kind: "R", Thread: g.Thread, Path: path, Out: op}
	if err != nil {
		e.Err = err.Error()
	}
	v.w.Log(e)
}

func (v *GateVault) Read(ctx context.Context, id uuid.UUID) (*workflow.Plan, error) {
	path := v.path(id)
	g := v.gate("R", path, "")
	p, err := v.Vault.Read(ctx, id)
	op := "Read"
	if err == nil && p != nil && p.State != nil {
		op = fmt.Sprintf("Read:%x", hashStr(View(p).Digest()))
	}
	v.read(g, op, path, err)
	if v.w.Sc.SlowReads && strings.HasPrefix(g.Thread, "api#") {
		// a slow store answer: the caller holds a copy that may be stale by the time it acts on it
		rg := &Gate{Thread: g.Thread, Kind: "RR", Path: path, Detail: "", Site: g.Site, Releasable: true}
		v.w.park(rg, nil)
	}
	return p, err
}

func (v *GateVault) Exists(ctx context.Context, id uuid.UUID) (bool, error) {
	path := v.path(id)
	g := v.gate("R", path, "exists")
	ok, err := v.Vault.Exists(ctx, id)
	v.read(g, "Exists", path, err)
	return ok, err
}

func (v *GateVault) Search(ctx context.Context, f storage.Filters) (chan storage.Stream[storage.ListResult], error) {
	g := v.gate("R", "*", "search")
	ch, err := v.Vault.Search(ctx, f)
	v.read(g, "Search", "*", err)
	return ch, err
}

func (v *GateVault) List(ctx context.Context, limit int) (chan storage.Stream[storage.ListResult], error) {
	g := v.gate("R", "*", "list")
	ch, err := v.Vault.List(ctx, limit)
	v.read(g, "List", "*", err)
	return ch, err
}

func (v *GateVault) Create(ctx context.Context, p *workflow.Plan) error {
	g := v.gate("C", "create", p.Name)
	err := v.Vault.Create(ctx, p)
	v.read(g, "Create", p.Name, err)
	return err
}

func (v *GateVault) Delete(ctx context.Context, id uuid.UUID) error {
	path := v.path(id)
	g := v.gate("D", path, "")
	err := v.Vault.Delete(ctx, id)
	v.read(g, "Delete", path, err)
	return err
}

func (v *GateVault) Close(ctx context.Context) error { return v.Vault.Close(ctx) }

// Recovery forwards to the inner vault when it implements storage.Recovery.
func (v *GateVault) Recovery(ctx context.Context) error {
	var err error
	if r, ok := v.Vault.(storage.Recovery); ok {
		err = r.Recovery(ctx)
	}
	v.w.mu.Lock()
	v.recovered = true
	v.w.mu.Unlock()
	return err
}

// UsedBeforeRecovery names the first storage operation the engine issued before it had run the store's recovery pass ("" = none).
func (v *GateVault) UsedBeforeRecovery() string {
	v.w.mu.Lock()
	defer v.w.mu.Unlock()
	return v.usedBefore
}
