package mc

import (
	"fmt"
	"sort"
	"strings"
)

// Call is one plugin invocation as seen in the event log.
type Call struct {
	Path     string
	N        int
	Out      string
	InvIdx   int // index of the INV event
	EndIdx   int // index of RET / CTXDONE event, -1 while in flight
	Returned bool
	CtxDone  bool
	Gen      int
	InvNow   int64
	EndNow   int64
}

// OK reports whether the call finished successfully.
func (c *Call) OK() bool {
	return c.Returned && !c.CtxDone && (c.Out == OK || c.Out == NilResp || c.Out == Late)
}

// FinalFail reports whether the call finished with an outcome after which no retry may follow.
func (c *Call) PermFail() bool {
	return c.Returned && !c.CtxDone && (c.Out == Perm || c.Out == PermWrap || c.Out == WrongType || c.Out == WrongNamed || c.Out == RespPerm || c.Out == WrongTrans || c.Out == WrongPerm)
}

// TransFail reports a finished, retryable failure (transient error or timeout).
func (c *Call) TransFail() bool {
	return c.Returned && (c.CtxDone || c.Out == Trans || c.Out == TransZero || c.Out == Overrun || c.Out == RespTrans)
}

// Hist is an index over the event log of one generation.
type Hist struct {
	Events []Event
	Calls  map[string][]*Call // by action path, in invocation order
	Gen    int
}

// NewHist indexes the events of generation gen (-1 = all).
func NewHist(x *Exec, gen int) *Hist {
	x.W.mu.Lock()
	evs := x.W.Events[:len(x.W.Events):len(x.W.Events)]
	x.W.mu.Unlock()
	h := &Hist{Events: evs, Calls: map[string][]*Call{}, Gen: gen}
	for i := range evs {
		e := &evs[i]
		if gen >= 0 && e.Gen != gen {
			continue
		}
		switch e.Kind {
		case "INV":
			h.Calls[e.Path] = append(h.Calls[e.Path], &Call{Path: e.Path, N: e.N, Out: e.Out, InvIdx: i, EndIdx: -1, Gen: e.Gen, InvNow: e.Now})
		case "RET", "CTXDONE":
			cs := h.Calls[e.Path]
			for j := len(cs) - 1; j >= 0; j-- {
				if cs[j].N == e.N && !cs[j].Returned {
					cs[j].Returned, cs[j].EndIdx, cs[j].CtxDone, cs[j].EndNow = true, i, e.Kind == "CTXDONE", e.Now
					break
				}
			}
		}
	}
	return h
}

// before returns the calls of path whose INV precedes event index idx.
func (h *Hist) callsBefore(path string, idx int) []*Call {
	var out []*Call
	for _, c := range h.Calls[path] {
		if c.InvIdx < idx {
			out = append(out, c)
		}
	}
	return out
}

// ActionState summarises an action at event index idx (exclusive): in flight? finished ok? finally failed?
type ActionState struct {
	Invoked  int
	InFlight bool
	Done     bool // finished successfully (last call ok)
	Failed   bool // finally failed (permanent failure, or retries exhausted)
}

func (h *Hist) actionAt(oi *ObjInfo, idx int) ActionState {
	var st ActionState
	cs := h.callsBefore(oi.Path, idx)
	st.Invoked = len(cs)
	if len(cs) == 0 {
		return st
	}
	last := cs[len(cs)-1]
	if !last.Returned || last.EndIdx >= idx {
		st.InFlight = true
		return st
	}
	switch {
	case last.OK():
		st.Done = true
	case last.PermFail():
		st.Failed = true
	case last.TransFail():
		retries := 0
		if oi.Act != nil {
			retries = oi.Act.Retries
		}
		// invocations of the current run: for sequence actions every invocation belongs to the one run
		if len(cs) >= retries+1 {
			st.Failed = true
		}
	}
	return st
}

// SeqState summarises a sequence at event index idx.
type SeqState struct {
	Started  bool // some action invoked
	InFlight bool // a plugin call in flight
	Finished bool // all actions done, or one finally failed
	Failed   bool
}

func (x *Exec) seqActions(seqPath string) []*ObjInfo {
	var out []*ObjInfo
	for i := 0; ; i++ {
		oi := x.W.Objs[fmt.Sprintf("%s/A%d", seqPath, i)]
		if oi == nil {
			break
		}
		out = append(out, oi)
	}
	return out
}

func (h *Hist) seqAt(x *Exec, seqPath string, idx int) SeqState {
	var st SeqState
	acts := x.seqActions(seqPath)
	done := 0
	for _, a := range acts {
		as := h.actionAt(a, idx)
		if as.Invoked > 0 {
			st.Started = true
		}
		if as.InFlight {
			st.InFlight = true
		}
		if as.Failed {
			st.Failed, st.Finished = true, true
		}
		if as.Done {
			done++
		}
	}
	if done == len(acts) {
		st.Finished = true
	}
	return st
}

// groupActions returns the action infos of a checks group path (e.g. "P0/B1/Pre").
func (x *Exec) groupActions(groupPath string) []*ObjInfo { return x.seqActions(groupPath) }

// groupPassed: every action of the group has a successful call before idx (at least one complete passing run is
// approximated by: each action's last finished call before idx is ok and none is in flight).
func (h *Hist) groupPassed(x *Exec, groupPath string, idx int) bool {
	acts := x.groupActions(groupPath)
	if len(acts) == 0 {
		return false
	}
	for _, a := range acts {
		as := h.actionAt(a, idx)
		if !as.Done {
			return false
		}
	}
	return true
}

// groupFailedEver: some call of some action of the group finished with a final failure before idx.
func (h *Hist) groupFailedEver(x *Exec, groupPath string, idx int) bool {
	for _, a := range x.groupActions(groupPath) {
		retries := 0
		if a.Act != nil {
			retries = a.Act.Retries
		}
		cs := h.callsBefore(a.Path, idx)
		for i, c := range cs {
			if !c.Returned || c.EndIdx >= idx {
				continue
			}
			if c.PermFail() {
				return true
			}
			if c.TransFail() && retries == 0 {
				return true
			}
			_ = i
		}
	}
	return false
}

// anyInFlightUnder reports a plugin call in flight at idx for any action whose path has the given prefix,
// optionally restricted by a filter on the object info.
func (h *Hist) anyInFlightUnder(x *Exec, prefix string, idx int, filter func(*ObjInfo) bool) string {
	for path, cs := range h.Calls {
		if !strings.HasPrefix(path, prefix+"/") {
			continue
		}
		oi := x.W.Objs[path]
		if oi == nil || (filter != nil && !filter(oi)) {
			continue
		}
		for _, c := range cs {
			if c.InvIdx < idx && (!c.Returned || c.EndIdx >= idx) {
				return path
			}
		}
	}
	return ""
}

// seqPaths returns the sequence paths of block bi of plan pi.
func (x *Exec) seqPaths(pi, bi int) []string {
	var out []string
	for si := range x.Sc.Plans[pi].Blocks[bi].Seqs {
		out = append(out, fmt.Sprintf("P%d/B%d/S%d", pi, bi, si))
	}
	return out
}

func sortedKeys[V any](m map[string]V) []string {
	out := make([]string, 0, len(m))
	for k := range m {
		out = append(out, k)
	}
	sort.Strings(out)
	return out
}

// newEvents returns the index range of events not yet processed by the monitor using memory key.
func newEvents(x *Exec, key string) (from, to int) {
	x.W.mu.Lock()
	to = len(x.W.Events)
	x.W.mu.Unlock()
	if v, ok := x.Mem[key]; ok {
		from = v.(int)
	}
	x.Mem[key] = to
	return from, to
}

// scopeSpec returns the checks specs of a scope path ("P0" or "P0/B1").
func (x *Exec) scopeChecks(scope string) (by, pre, cont, post, def *ChecksSpec) {
	oi := x.W.Objs[scope]
	if oi == nil {
		return
	}
	ps := &x.Sc.Plans[oi.Plan]
	if oi.Kind == "plan" {
		return ps.Bypass, ps.Pre, ps.Cont, ps.Post, ps.Def
	}
	bs := &ps.Blocks[oi.Block]
	return bs.Bypass, bs.Pre, bs.Cont, bs.Post, bs.Def
}
