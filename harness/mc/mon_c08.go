package mc

import (
	"fmt"
	"strings"

	"github.com/element-of-surprise/coercion/workflow"
)

// C08: persist-before-act and no visible regress. The inner vault is read directly at quiescent states
// (nobody holds the single sqlite connection then).
type monC08 struct{}

func (monC08) AtState(x *Exec) {
	w := x.W
	from, to := newEvents(x, "c08")
	views := map[int]*PlanView{}
	view := func(pi int) *PlanView {
		if v, ok := views[pi]; ok {
			return v
		}
		p, err := x.ReadPlan(pi)
		if err != nil {
			views[pi] = nil
			return nil
		}
		v := View(p)
		views[pi] = v
		return v
	}
	if from != to {
		// In a restarted process (crash layer) the same rules hold for what this process does; only the attempt
		// arithmetic is skipped, because the stored attempts then include those of the previous life.
		gen := w.Gen
		h := NewHist(x, gen)
		for k := from; k < to; k++ {
			e := &h.Events[k]
			if e.Kind != "INV" || e.Gen != gen {
				continue
			}
			oi := w.Objs[e.Path]
			if oi == nil {
				continue
			}
			v := view(oi.Plan)
			if v == nil {
				continue
			}
			st := v.Objs[e.Path]
			if st == nil {
				continue
			}
			// the call must still be pending for the stored state to be "the state at invocation"
			if st.Status != workflow.Running {
				x.Report(&Violation{Property: "C08", Rule: "plugin-invoked-before-running-was-durable", Signature: "running",
					Msg: fmt.Sprintf("invocation #%d of %s: the stored action is %s, not Running", e.N, e.Path, st.Status)})
			}
			if isSeqAction(oi) {
				if gen > 0 {
					// nothing to compare the count with
				} else if len(st.Att) != e.N {
					x.Report(&Violation{Property: "C08", Rule: "attempt-not-durable-before-next-attempt", Signature: "attempts",
						Msg: fmt.Sprintf("invocation #%d of %s began with %d attempts in storage (want %d)", e.N, e.Path, len(st.Att), e.N)})
				} else if e.N > 0 {
					prev := h.callsBefore(e.Path, k)
					last := st.Att[len(st.Att)-1]
					if len(prev) >= 2 {
						pc := prev[len(prev)-2]
						if pc.Returned && pc.OK() == last.HasErr {
							x.Report(&Violation{Property: "C08", Rule: "attempt-not-durable-before-next-attempt", Signature: "attempts",
								Msg: fmt.Sprintf("invocation #%d of %s: the last stored attempt does not carry the result of invocation #%d", e.N, e.Path, pc.N)})
						}
					}
				}
				if oi.Idx > 0 {
					pp := fmt.Sprintf("%s/A%d", oi.Parent, oi.Idx-1)
					ps := v.Objs[pp]
					if ps != nil && (ps.Status != workflow.Completed || len(ps.Att) == 0 || ps.Att[len(ps.Att)-1].HasErr) {
						x.Report(&Violation{Property: "C08", Rule: "previous-action-not-durable-before-next-action", Signature: "next-action",
							Msg: fmt.Sprintf("%s was invoked while the stored previous action %s is %s with %d attempts", e.Path, pp, ps.Status, len(ps.Att))})
					}
				}
			} else if gen == 0 && oi.Act != nil && oi.Act.Retries == 0 && len(st.Att) != 0 {
				x.Report(&Violation{Property: "C08", Rule: "check-action-attempts-not-reset", Signature: "attempts",
					Msg: fmt.Sprintf("check action %s was invoked with %d stale attempts in storage", e.Path, len(st.Att))})
			}
		}
	}
	// The terminal state of the whole plan is durable before any waiter is released.
	for _, g := range w.Parked() {
		if g.Kind != "R" || !strings.HasPrefix(g.Thread, "api#") {
			continue
		}
		w.mu.Lock()
		cur, ok := w.apiCur[g.Thread]
		w.mu.Unlock()
		if !ok || cur.Op != "wait" || cur.Plan < 0 || cur.Plan >= len(x.Sc.Plans) {
			continue
		}
		// every waiter counts, but only one whose Wait was issued after a successful Start of the plan had returned is
		// owed a terminal state (a Wait on a plan nobody has started yet returns at once, and rightly so)
		callIdx, owed := waitIssuedAfterStart(x, g.Thread, cur.Plan)
		key := fmt.Sprintf("c08rel:%d:%s:%d", cur.Plan, g.Thread, callIdx)
		if x.Mem[key] != nil {
			continue
		}
		x.Mem[key] = true
		if _, rec := recoveryMode(x); !rec && !owed {
			continue
		}
		v := view(cur.Plan)
		if v == nil {
			continue
		}
		planPath := fmt.Sprintf("P%d", cur.Plan)
		if _, rec := recoveryMode(x); rec {
			// a restarted process only owes a terminal state to the waiters of plans it resumed
			if cv := crashView(x, cur.Plan); cv == nil || cv.Objs[planPath] == nil || cv.Objs[planPath].Status != workflow.Running {
				continue
			}
		}
		if ps := v.Objs[planPath]; ps != nil && !terminal(ps.Status) {
			x.Report(&Violation{Property: "C08", Rule: "waiter-released-before-terminal-state-durable", Signature: "waiter",
				Msg: fmt.Sprintf("the waiter of %s was released while the stored plan is %s", planPath, ps.Status)})
		}
		for _, p := range v.Order {
			if v.Objs[p].Status == workflow.Running {
				x.Report(&Violation{Property: "C08", Rule: "waiter-released-before-terminal-state-durable", Signature: "waiter",
					Msg: fmt.Sprintf("the waiter of %s was released while %s is stored Running", planPath, p)})
				break
			}
		}
	}
	// Polling: the plan is read at every state; a block, sequence or sequence action read as Completed/Failed never reads differently later.
	seen, _ := x.Mem["c08seen"].(map[string]workflow.Status)
	if seen == nil {
		seen = map[string]workflow.Status{}
		x.Mem["c08seen"] = seen
	}
	for pi := range x.Sc.Plans {
		v := view(pi)
		if v == nil {
			continue
		}
		for _, p := range v.Order {
			o := v.Objs[p]
			oi := w.Objs[p]
			if oi == nil || !(oi.Kind == "block" || oi.Kind == "seq" || isSeqAction(oi)) {
				continue
			}
			if prev, ok := seen[p]; ok && prev != o.Status {
				x.Report(&Violation{Property: "C08", Rule: "status-regressed", Signature: "regress",
					Msg: fmt.Sprintf("%s was read as %s and is now read as %s", p, prev, o.Status)})
			}
			if terminal(o.Status) {
				seen[p] = o.Status
			}
		}
	}
}

func (monC08) AtEnd(x *Exec) {}

// FamilyRetrySeq: sequences with retried actions next to plain ones.
func FamilyRetrySeq(tier string) []*Scenario {
	var out []*Scenario
	add := func(name string, ps PlanSpec) {
		out = append(out, &Scenario{Family: "F-retryseq", Name: "retryseq-" + name, Plans: []PlanSpec{ps}, MaxTicks: 12})
	}
	add("t-ok", PlanSpec{Blocks: []BlockSpec{{Seqs: []SeqSpec{Seq(AR(1, Trans, OK), A())}}}})
	add("t-t-ok", PlanSpec{Blocks: []BlockSpec{{Seqs: []SeqSpec{Seq(AR(2, Trans, Trans, OK), A())}}}})
	add("t-t-t", PlanSpec{Blocks: []BlockSpec{{Seqs: []SeqSpec{Seq(A(), AR(2, Trans, Trans, Trans), A())}}}})
	add("t-f", PlanSpec{Blocks: []BlockSpec{{Seqs: []SeqSpec{Seq(AR(2, Trans, Perm), A())}}}})
	add("two-seqs", PlanSpec{Blocks: []BlockSpec{{Conc: 2, Tol: 1, Seqs: []SeqSpec{Seq(AR(1, Trans, OK), A()), Seq(AR(1, Trans, Trans))}}}})
	add("check-retry", PlanSpec{Pre: Chk(AR(1, Trans, OK), A()), Post: Chk(AR(2, Trans, Trans, OK)), Blocks: []BlockSpec{{Seqs: okSeqs(1, 1)}}})
	return out
}

func init() {
	register(&PropDef{
		ID:    "C08",
		Level: "model_checking",
		Rule: "families F-seq, F-chk, F-sharp, sequences with retried actions (F-retryseq), minimal F-cont and the crash layer (each durable state of crash scenarios restarted: the restarted process obeys the same rules); every order of visible operations within the deviation bound; the real vault is read directly at every quiescent state " +
			"(the finest possible polling history: any real poller sees a subsequence): at each plugin invocation the stored action must be Running with exactly the previous attempts, the previous action durably Completed, " +
			"the plan terminal when the waiter is released, and no block/sequence/sequence-action status once read as Completed/Failed reads differently later; " +
			"distinct_nontrivial = distinct states in which two or more logical threads were enabled",
		Assumptions: []string{"a free worker-pool runner always exists (64 runners)", "I/O granularity", "sqlite applies each Update* as one auto-commit statement, so a completed call is durable"},
		NewMon:      func(sc *Scenario) Monitor { return monC08{} },
		Items: func(tier string) []WorkItem {
			var items []WorkItem
			b := 1
			if tier == "thorough" {
				b = 2
			}
			for _, sc := range FamilySeq(tier) {
				items = append(items, explore("C08", sc, b, true))
			}
			for _, sc := range FamilyRetrySeq(tier) {
				items = append(items, explore("C08", sc, b+1, true))
			}
			for _, sc := range FamilyChk(tier) {
				items = append(items, explore("C08", sc, b-1, true))
			}
			for _, sc := range FamilySharp(tier) {
				items = append(items, explore("C08", sc, b, true))
			}
			// the same in a restarted process: every durable state of crash scenarios is restarted; what the new process
			// invokes is durably Running first, and its waiters are released only when nothing is stored Running
			var crash []*Scenario
			for _, sc := range FamilyCrash(tier) {
				n := sc.Name
				if strings.HasPrefix(n, "crash-b2-n2-a2-c2-") || strings.HasPrefix(n, "crash-b2-n1-") || strings.HasPrefix(n, "crash-chk-") || strings.HasPrefix(n, "crash-2fail-t0") ||
					strings.HasSuffix(n, "-def") || n == "crash-all-groups" || n == "crash-retry-t-ok" || tier == "thorough" {
					crash = append(crash, sc)
				}
			}
			items = append(items, crashItems("C08", tier, crash)...)
			// "before ANY waiter is released": several callers waiting, and further Start calls arriving while the plan runs
			// (they are rejected; the waiters of the running execution must stay where they are)
			for _, sc := range FamilyAPI(tier) {
				switch sc.Name {
				case "api-conc-start,wait|start", "api-conc-start,wait|wait", "api-conc-start,start|wait", "api-conc-start,wait|start,wait", "api-conc-start,wait|plan,start":
					items = append(items, exploreCap("C08", sc, b+1, true, 60))
				}
			}
			// a continuous-check run in flight when its scope fails by another route: the terminal state must still
			// be the last thing written before the waiter is released
			for _, sc := range FamilyCont(tier) {
				if strings.HasPrefix(sc.Name, "cont-min-") {
					items = append(items, exploreCap("C08", sc, b, true, 60))
				}
			}
			return items
		},
	})
}

// waitIssuedAfterStart looks up the current wait call of an API thread (its index in the thread's script) and whether a
// successful Start of the plan had returned before that call was issued.
func waitIssuedAfterStart(x *Exec, thread string, plan int) (callIdx int, after bool) {
	w := x.W
	w.mu.Lock()
	evs := w.Events[:len(w.Events):len(w.Events)]
	w.mu.Unlock()
	callIdx = -1
	issued := -1
	for i := len(evs) - 1; i >= 0; i-- {
		e := &evs[i]
		if e.Kind == "API" && e.Thread == thread && e.Out == fmt.Sprintf("wait(P%d)", plan) {
			callIdx, issued = e.N, i
			break
		}
	}
	if issued < 0 {
		return callIdx, false
	}
	for i := 0; i < issued; i++ {
		e := &evs[i]
		if e.Kind == "APIRET" && e.Err == "" && e.Out == fmt.Sprintf("start(P%d)", plan) {
			return callIdx, true
		}
	}
	return callIdx, false
}
