package mc

import (
	"context"
	"fmt"
	"io/fs"
	"reflect"
	"sort"
	"strings"
	"time"

	"github.com/element-of-surprise/coercion/plugins"
	"github.com/element-of-surprise/coercion/plugins/registry"
	"github.com/element-of-surprise/coercion/workflow"
	"github.com/element-of-surprise/coercion/workflow/utils/clone"
	"github.com/element-of-surprise/coercion/workflow/utils/html/reports"
	bctx "github.com/gostdlib/base/context"
	"github.com/gostdlib/base/retry/exponential"
)

// C17: secure-tagged values never leak. Request/response TYPES are generated at run time from a grammar:
//
//	T ::= string | struct{ At time.Time; X T; Y T `coerce:"secure"`; Z string; W T `coerce:"ignore"` } | *T | []T | map[string]T | any(T)
//
// A shape is a string over the constructors: 's' string, 'S' struct, 'p' pointer, 'l' slice, 'm' map, 'i' interface,
// read outside-in, e.g. "Slp s" ... the struct's X and Y subtrees both use the rest of the shape.

var anyType = reflect.TypeOf((*any)(nil)).Elem()

// typeOf builds the reflect.Type of a shape; interface nodes are `any` (what they hold is decided by the value).
func typeOf(shape string) reflect.Type {
	if shape == "" {
		return reflect.TypeOf("")
	}
	rest := shape[1:]
	switch shape[0] {
	case 's':
		return reflect.TypeOf("")
	case 'S':
		inner := typeOf(rest)
		return reflect.StructOf([]reflect.StructField{
			// a time.Time first: the scrubber leaves times alone, and must still look at the fields declared after one
			{Name: "At", Type: timeType},
			{Name: "X", Type: inner},
			{Name: "Y", Type: inner, Tag: `coerce:"secure"`},
			{Name: "Z", Type: reflect.TypeOf("")},
			// "ignore" only tells the registry that a secret-looking name is not a secret: what lies below is walked
			{Name: "W", Type: inner, Tag: `coerce:"ignore"`},
		})
	case 'p':
		return reflect.PointerTo(typeOf(rest))
	case 'l':
		return reflect.SliceOf(typeOf(rest))
	case 'm':
		return reflect.MapOf(reflect.TypeOf(""), typeOf(rest))
	case 'i':
		return anyType
	}
	panic("bad shape " + shape)
}

type canaries struct {
	n      int
	secret []string
	plain  []string
	prefix string
}

func (c *canaries) next(secure bool) string {
	c.n++
	if secure {
		s := fmt.Sprintf("%sSECRET%03dx", c.prefix, c.n)
		c.secret = append(c.secret, s)
		return s
	}
	s := fmt.Sprintf("%sPLAIN%03dx", c.prefix, c.n)
	c.plain = append(c.plain, s)
	return s
}

// valueOf builds a value of the shape with a canary in every string leaf; secure says whether an ancestor field is tagged.
func valueOf(shape string, secure bool, c *canaries) reflect.Value {
	if shape == "" || shape[0] == 's' {
		return reflect.ValueOf(c.next(secure))
	}
	rest := shape[1:]
	t := typeOf(shape)
	switch shape[0] {
	case 'S':
		v := reflect.New(t).Elem()
		v.Field(0).Set(reflect.ValueOf(time.Date(2024, 1, 2, 3, 4, 5, 0, time.UTC)))
		v.Field(1).Set(valueOf(rest, secure, c))
		v.Field(2).Set(valueOf(rest, true, c))
		v.Field(3).SetString(c.next(secure))
		v.Field(4).Set(valueOf(rest, secure, c))
		return v
	case 'p':
		v := reflect.New(t.Elem())
		v.Elem().Set(valueOf(rest, secure, c))
		return v
	case 'l':
		v := reflect.MakeSlice(t, 0, 2)
		v = reflect.Append(v, valueOf(rest, secure, c), valueOf(rest, secure, c))
		return v
	case 'm':
		v := reflect.MakeMap(t)
		v.SetMapIndex(reflect.ValueOf("k1"), valueOf(rest, secure, c))
		v.SetMapIndex(reflect.ValueOf("k2"), valueOf(rest, secure, c))
		return v
	case 'i':
		v := reflect.New(anyType).Elem()
		v.Set(valueOf(rest, secure, c))
		return v
	}
	panic("bad shape")
}

// secretShapes enumerates all shapes of the grammar with at most depth constructors, each ending in a string and
// containing at least one struct (a secure tag needs a field).
func secretShapes(depth int) []string {
	var out []string
	var rec func(prefix string, hasStruct bool)
	rec = func(prefix string, hasStruct bool) {
		if hasStruct {
			out = append(out, prefix+"s")
		}
		if len(prefix) == depth {
			return
		}
		for _, c := range "Splmi" {
			rec(prefix+string(c), hasStruct || c == 'S')
		}
	}
	rec("", false)
	return out
}

type secretCase struct {
	Shape     string `json:"shape"`     // the request/response type is struct{ V <shape> } so that the top is always a struct
	Placement string `json:"placement"` // seqreq chkreq resp
	Surface   string `json:"surface"`   // plan block checks sequence action render
	Pointer   bool   `json:"pointer"`   // the request is handed over as a pointer to the struct
}

func (c secretCase) String() string {
	return fmt.Sprintf("type struct{V %s} placed as %s (pointer=%v), surface %s", c.Shape, c.Placement, c.Pointer, c.Surface)
}

// describe renders the Go type of the shape for humans.
func describeShape(shape string) string { return typeOf("S" + shape).String() }

func scanFS(fsys fs.ReadFileFS, needles []string) (string, string) {
	found, where := "", ""
	fs.WalkDir(fsys, ".", func(path string, d fs.DirEntry, err error) error {
		if err != nil || d.IsDir() || found != "" {
			return nil
		}
		b, rerr := fsys.ReadFile(path)
		if rerr != nil {
			return nil
		}
		s := string(b)
		for _, n := range needles {
			if strings.Contains(s, n) {
				found, where = n, path
				return nil
			}
		}
		return nil
	})
	return found, where
}

func checkSecretCase(c secretCase) (rule, sig, msg string) {
	defer func() {
		if r := recover(); r != nil {
			rule, sig, msg = "scrubber-panicked", shapeClass(c.Shape), fmt.Sprintf("%s: panic: %v", c, r)
		}
	}()
	can := &canaries{prefix: "q"}
	top := "S" + c.Shape // struct{ X <shape>; Y <shape> secure; Z string }
	val := valueOf(top, false, can)
	var payload any = val.Interface()
	if c.Pointer {
		p := reflect.New(val.Type())
		p.Elem().Set(val)
		payload = p.Interface()
	}
	return checkSecretPayload(c, payload, can, shapeClass(c.Shape), func() string { return describeShape(c.Shape) })
}

// checkSecretPayload places the payload (whose secret and plain canaries are listed in can) in a plan and looks at one surface.
func checkSecretPayload(c secretCase, payload any, can *canaries, class string, descr func() string) (rule, sig, msg string) {
	t0 := time.Date(2024, 1, 2, 3, 4, 5, 0, time.UTC)
	st := func() *workflow.State {
		return &workflow.State{Status: workflow.Completed, Start: t0, End: t0.Add(time.Second)}
	}
	mk := func(name string) *workflow.Action {
		return &workflow.Action{ID: workflow.NewV7(), Name: name, Descr: name, Plugin: "p", Timeout: 30 * time.Second, Req: SReq{Arg: name}, State: st()}
	}
	seqA, chkA := mk("seq-action"), mk("check-action")
	switch c.Placement {
	case "seqreq":
		seqA.Req = payload
	case "chkreq":
		chkA.Req = payload
	case "resp":
		seqA.Attempts = []*workflow.Attempt{{Resp: payload, Start: t0, End: t0.Add(time.Second)}}
	case "chkresp":
		chkA.Attempts = []*workflow.Attempt{{Err: &plugins.Error{Message: "x"}, Start: t0, End: t0}, {Resp: payload, Start: t0, End: t0.Add(time.Second)}}
	}
	checks := &workflow.Checks{ID: workflow.NewV7(), Actions: []*workflow.Action{chkA}, State: st()}
	seq := &workflow.Sequence{ID: workflow.NewV7(), Name: "seq", Descr: "seq", Actions: []*workflow.Action{seqA}, State: st()}
	block := &workflow.Block{ID: workflow.NewV7(), Name: "block", Descr: "block", PreChecks: checks, Sequences: []*workflow.Sequence{seq}, State: st()}
	plan := &workflow.Plan{ID: workflow.NewV7(), Name: "plan", Descr: "plan", Blocks: []*workflow.Block{block}, State: st(), SubmitTime: t0}
	before := dumpOf(plan)
	ctx := bctx.Background()
	opts := []clone.Option{clone.WithKeepState()} // attempts are only cloned with keep-state; secrets are still scrubbed
	var out string
	var files fs.ReadFileFS
	inCheck := c.Placement == "chkreq" || c.Placement == "chkresp"
	switch c.Surface {
	case "plan":
		out = dumpOf(clone.Plan(ctx, plan, opts...))
	case "block":
		out = dumpOf(clone.Block(ctx, block, opts...))
	case "checks":
		if !inCheck {
			return "", "", ""
		}
		out = dumpOf(clone.Checks(ctx, checks, opts...))
	case "sequence":
		if inCheck {
			return "", "", ""
		}
		out = dumpOf(clone.Sequence(ctx, seq, opts...))
	case "action":
		a := seqA
		if inCheck {
			a = chkA
		}
		out = dumpOf(clone.Action(ctx, a, opts...))
	case "plan-default":
		if c.Placement == "resp" || c.Placement == "chkresp" {
			return "", "", "" // a clone without keep-state drops the attempts altogether
		}
		out = dumpOf(clone.Plan(ctx, plan))
	case "render":
		var err error
		files, err = reports.Render(ctx, plan)
		if err != nil {
			return "render-failed", class, fmt.Sprintf("%s: %v", c, err)
		}
	}
	if files != nil {
		if s, where := scanFS(files, can.secret); s != "" {
			return "secret-in-rendered-report", "render", fmt.Sprintf("%s: the secure-tagged value %s appears in %s of the rendered report", c, s, where)
		}
	} else {
		for _, s := range can.secret {
			if strings.Contains(out, s) {
				return "secret-in-clone", class, fmt.Sprintf("%s: the secure-tagged value %s is still in the clone (type %s)", c, s, descr())
			}
		}
		for _, s := range can.plain {
			if !strings.Contains(out, s) {
				return "untagged-data-lost-in-clone", class, fmt.Sprintf("%s: the untagged value %s is missing from the clone (type %s)", c, s, descr())
			}
		}
	}
	if after := dumpOf(plan); after != before {
		return "original-plan-modified", c.Surface + ":" + c.Placement, fmt.Sprintf("%s: the original plan was changed: %s", c, firstDiff2(before, after))
	}
	return "", "", ""
}

// shapeClass names the constructors that matter for a scrubber: the outermost two after the top struct.
func shapeClass(shape string) string {
	names := map[byte]string{'s': "string", 'S': "struct", 'p': "ptr", 'l': "slice", 'm': "map", 'i': "iface"}
	var parts []string
	for i := 0; i < len(shape) && i < 3; i++ {
		parts = append(parts, names[shape[i]])
	}
	return strings.Join(parts, ">")
}

// ---------------------------------------------------------------------------------------------
// Registry: secret-looking field names need an explicit tag at any struct depth.

type regPlug struct {
	simplePlug
	req, resp any
}

func (p *regPlug) Request() any  { return p.req }
func (p *regPlug) Response() any { return p.resp }
func (p *regPlug) RetryPolicy() exponential.Policy {
	return p.simplePlug.RetryPolicy()
}
func (p *regPlug) Execute(ctx context.Context, req any) (any, *plugins.Error) { return nil, nil }

type registryCase struct {
	Nesting string `json:"nesting"` // over 'S' (struct by value) and 'p' (pointer to struct): how the offending struct is nested
	Name    string `json:"name"`    // field name
	Tag     string `json:"tag"`     // "", secure, ignore
	InResp  bool   `json:"inResp"`
	Top     string `json:"top"` // value or pointer: how the plugin returns its request/response
}

func (c registryCase) String() string {
	return fmt.Sprintf("field %q tag %q nested %q (top %s, response=%v)", c.Name, c.Tag, c.Nesting, c.Top, c.InResp)
}

var secretNameRE = []string{"token", "pass", "jwt", "hash", "secret", "bearer", "cred", "secure", "signing", "cert", "code", "key"}

func looksSecret(name string) bool {
	l := strings.ToLower(name)
	for _, s := range secretNameRE {
		if strings.Contains(l, s) {
			return true
		}
	}
	return false
}

func checkRegistryCase(c registryCase) (rule, sig, msg string) {
	defer func() {
		if r := recover(); r != nil {
			rule, sig, msg = "registry-panicked", c.Nesting, fmt.Sprintf("%s: panic: %v", c, r)
		}
	}()
	tag := reflect.StructTag("")
	if c.Tag != "" {
		tag = reflect.StructTag(`coerce:"` + c.Tag + `"`)
	}
	t := reflect.StructOf([]reflect.StructField{{Name: "Plain", Type: reflect.TypeOf("")}, {Name: c.Name, Type: reflect.TypeOf(""), Tag: tag}})
	for i := len(c.Nesting) - 1; i >= 0; i-- {
		inner := t
		if c.Nesting[i] == 'p' {
			inner = reflect.PointerTo(t)
		}
		t = reflect.StructOf([]reflect.StructField{{Name: "Other", Type: reflect.TypeOf(0)}, {Name: "Nested", Type: inner}})
	}
	// a value with all nested pointers non-nil (a zero-valued prototype is what plugins usually return, but a
	// populated one must not be treated more leniently)
	var fill func(v reflect.Value)
	fill = func(v reflect.Value) {
		switch v.Kind() {
		case reflect.Ptr:
			if v.IsNil() {
				v.Set(reflect.New(v.Type().Elem()))
			}
			fill(v.Elem())
		case reflect.Struct:
			for i := 0; i < v.NumField(); i++ {
				fill(v.Field(i))
			}
		}
	}
	pv := reflect.New(t)
	if c.Top != "zero" {
		fill(pv.Elem())
	}
	var proto any = pv.Elem().Interface()
	if c.Top == "pointer" {
		proto = pv.Interface()
	}
	p := &regPlug{simplePlug: simplePlug{name: "p"}, req: SReq{}, resp: SResp{}}
	if c.InResp {
		p.resp = proto
	} else {
		p.req = proto
	}
	reg := registry.New()
	err := reg.Register(p)
	want := looksSecret(c.Name) && c.Tag == ""
	switch {
	case want && err == nil:
		return "secret-looking-field-accepted-without-tag", "nesting:" + nestClass(c.Nesting) + ":" + c.Top, fmt.Sprintf("%s: Register accepted the plugin (type %s)", c, t)
	case !want && err != nil:
		return "well-tagged-type-refused", "nesting:" + nestClass(c.Nesting) + ":" + c.Tag, fmt.Sprintf("%s: Register refused the plugin: %v", c, err)
	}
	// The verdict is a function of the type alone, not of what the registry has seen before: the same plugin again,
	// another plugin whose type contains the same struct, and the same plugin after an unrelated refusal.
	verdict := func(step string, err error) (string, string, string) {
		switch {
		case want && err == nil:
			return "secret-looking-field-accepted-without-tag", "history:" + step, fmt.Sprintf("%s: %s: Register accepted the plugin", c, step)
		case !want && err != nil:
			return "well-tagged-type-refused", "history:" + step, fmt.Sprintf("%s: %s: Register refused the plugin: %v", c, step, err)
		}
		return "", "", ""
	}
	if want {
		if r, s2, m := verdict("same plugin registered again after its refusal", reg.Register(p)); r != "" {
			return r, s2, m
		}
	}
	wrap := reflect.StructOf([]reflect.StructField{{Name: "Label", Type: reflect.TypeOf("")}, {Name: "Wrapped", Type: reflect.PointerTo(t)}})
	q := &regPlug{simplePlug: simplePlug{name: "q"}, req: SReq{}, resp: SResp{}}
	if c.InResp {
		q.req = reflect.New(wrap).Elem().Interface() // the other side this time
	} else {
		q.resp = reflect.New(wrap).Elem().Interface()
	}
	if r, s2, m := verdict("another plugin whose type contains the same struct, same registry", reg.Register(q)); r != "" {
		return r, s2, m
	}
	reg2 := registry.New()
	bad := &regPlug{simplePlug: simplePlug{name: "bad"}, req: struct{ Password string }{}, resp: SResp{}}
	if reg2.Register(bad) == nil {
		return "secret-looking-field-accepted-without-tag", "history:control", "a plugin with an untagged Password field was accepted"
	}
	if r, s2, m := verdict("after an unrelated plugin was refused by the same registry", reg2.Register(p)); r != "" {
		return r, s2, m
	}
	return "", "", ""
}

// Embedded structs: Go promotes the exported fields of an embedded struct - also of one whose type is unexported - to
// the outer type, and encoders write them out. Static types, because reflect.StructOf cannot build these.
type embAccount struct {
	User     string
	Password string
}
type embTagged struct {
	User     string
	Password string `coerce:"secure"`
}
type EmbExported struct {
	User   string
	APIKey string
}
type reqEmbUnexported struct {
	embAccount
	Target string
}
type reqEmbUnexportedPtr struct {
	*embAccount
	Target string
}
type reqEmbTagged struct {
	embTagged
	Target string
}
type reqEmbExported struct {
	EmbExported
	Target string
}
type reqEmbDeep struct {
	Inner struct{ embAccount }
	Note  string
}
type reqEmbHarmless struct {
	embHarmless
	Target string
}
type embHarmless struct{ User, City string }

type embeddedCase struct {
	Name   string `json:"name"`
	InResp bool   `json:"inResp"`
	Ptr    bool   `json:"ptr"`
}

var embeddedProtos = []struct {
	name   string
	value  any
	ptr    any
	refuse bool
}{
	{"unexported-embedded", reqEmbUnexported{}, &reqEmbUnexported{}, true},
	{"unexported-embedded-pointer", reqEmbUnexportedPtr{}, &reqEmbUnexportedPtr{}, true},
	{"tagged-embedded", reqEmbTagged{}, &reqEmbTagged{}, false},
	{"exported-embedded", reqEmbExported{}, &reqEmbExported{}, true},
	{"embedded-below-a-struct-field", reqEmbDeep{}, &reqEmbDeep{}, true},
	{"harmless-embedded", reqEmbHarmless{}, &reqEmbHarmless{}, false},
}

func checkEmbeddedCase(c embeddedCase) (rule, sig, msg string) {
	defer func() {
		if r := recover(); r != nil {
			rule, sig, msg = "registry-panicked", "embedded:"+c.Name, fmt.Sprintf("%+v: panic: %v", c, r)
		}
	}()
	for _, e := range embeddedProtos {
		if e.name != c.Name {
			continue
		}
		proto := e.value
		if c.Ptr {
			proto = e.ptr
		}
		p := &regPlug{simplePlug: simplePlug{name: "p"}, req: SReq{}, resp: SResp{}}
		if c.InResp {
			p.resp = proto
		} else {
			p.req = proto
		}
		err := registry.New().Register(p)
		switch {
		case e.refuse && err == nil:
			return "secret-looking-field-accepted-without-tag", "embedded:" + c.Name, fmt.Sprintf("%+v: Register accepted a type with an untagged secret-looking promoted field (%T)", c, proto)
		case !e.refuse && err != nil:
			return "well-tagged-type-refused", "embedded:" + c.Name, fmt.Sprintf("%+v: Register refused the plugin: %v", c, err)
		}
	}
	return "", "", ""
}

func nestClass(n string) string {
	if n == "" {
		return "top"
	}
	if strings.Contains(n, "p") {
		return "via-pointer"
	}
	return "via-struct"
}

func enumC17(env *EnumEnv, it *WorkItem) *EnumResult {
	res := &EnumResult{Exhaustive: true}
	reported := map[string]bool{}
	idx := 0
	report := func(rule, sig, msg string, input any) {
		if rule == "" {
			return
		}
		k := rule + "|" + sig
		if !reported[k] {
			reported[k] = true
			res.Found = append(res.Found, &EnumFound{V: Violation{Property: "C17", Rule: rule, Signature: sig, Msg: msg}, Input: input})
		}
	}
	depth := 4
	if env.Tier == "thorough" {
		depth = 5
	}
	shapes := secretShapes(depth - 1)
	shapes = append([]string{"s"}, shapes...)
	sort.SliceStable(shapes, func(i, j int) bool { return len(shapes[i]) < len(shapes[j]) }) // shallow types first
	g := &budgetGuard{env: env, res: res}
	for _, sh := range shapes {
		g.phase = fmt.Sprintf("type shapes with %d constructors", len(sh))
		for _, pl := range []string{"seqreq", "chkreq", "resp", "chkresp"} {
			for _, sf := range []string{"plan", "block", "checks", "sequence", "action", "plan-default", "render"} {
				for _, ptr := range []bool{false, true} {
					idx++
					if idx%it.NShards != it.Shard || g.over() {
						continue
					}
					c := secretCase{Shape: sh, Placement: pl, Surface: sf, Pointer: ptr}
					res.Evaluations++
					if sh != "s" {
						res.Distinct++
					}
					r, s, m := checkSecretCase(c)
					report(r, s, m, map[string]any{"secret": c})
					if len(res.Samples) < 2 && len(sh) == depth && pl == "resp" && sf == "plan" {
						res.Samples = append(res.Samples, c.String()+" = "+describeShape(sh))
					}
				}
			}
		}
	}
	// registry
	g.phase = "registry"
	var nestings []string
	var rec func(p string)
	rec = func(p string) {
		nestings = append(nestings, p)
		if len(p) == 3 {
			return
		}
		rec(p + "S")
		rec(p + "p")
	}
	rec("")
	for _, n := range nestings {
		for _, name := range []string{"Password", "APIToken", "SigningKey", "Harmless", "Passenger"} {
			for _, tag := range []string{"", "secure", "ignore"} {
				for _, inResp := range []bool{false, true} {
					for _, top := range []string{"value", "pointer", "zero"} {
						idx++
						if idx%it.NShards != it.Shard || g.over() {
							continue
						}
						c := registryCase{Nesting: n, Name: name, Tag: tag, InResp: inResp, Top: top}
						res.Evaluations++
						res.Distinct++
						r, s, m := checkRegistryCase(c)
						report(r, s, m, map[string]any{"registry": c})
					}
				}
			}
		}
	}
	g.phase = "recursive types"
	for _, c := range recursiveCases() {
		idx++
		if idx%it.NShards != it.Shard || g.over() {
			continue
		}
		res.Evaluations++
		res.Distinct++
		r, s, m := checkRecursiveCase(c)
		report(r, s, m, map[string]any{"recursive": c})
	}
	g.phase = "registry: embedded structs"
	for _, e := range embeddedProtos {
		for _, inResp := range []bool{false, true} {
			for _, ptr := range []bool{false, true} {
				idx++
				if idx%it.NShards != it.Shard || g.over() {
					continue
				}
				c := embeddedCase{Name: e.name, InResp: inResp, Ptr: ptr}
				res.Evaluations++
				res.Distinct++
				r, s, m := checkEmbeddedCase(c)
				report(r, s, m, map[string]any{"embedded": c})
			}
		}
	}
	res.Notes = append(res.Notes, fmt.Sprintf("%d type shapes up to %d constructors below the top struct; Go arrays are excluded as documented", len(shapes), depth-1))
	return res
}

func init() {
	register(&PropDef{
		ID:    "C17",
		Level: "exploration",
		Rule: "request/response TYPES are built at run time with reflect.StructOf/PointerTo/SliceOf/MapOf from the grammar T ::= string | struct{At time.Time; X T; Y T secure; Z string; W T ignore} | *T | []T | map[string]T | any(T) (an ignore-tagged container is walked like an untagged one): ALL shapes up to 3 (4) constructors deep below a top struct field, a unique canary string in every leaf " +
			"(secret iff some enclosing field is tagged), handed over by value and by pointer, placed as sequence-action request, check-action request, attempt response of a sequence action and of a check action; surfaces: clone.Plan/Block/Checks/Sequence/Action (keep-state, default secrets), default clone.Plan, reports.Render (every file of the returned file system); " +
			"oracle: byte search for every secret canary (must be absent) and every plain canary (must be present in clones), canonical dump of the original plan before/after; registry: secret-looking and harmless field names x {no tag, secure, ignore} x nesting through structs and pointers up to depth 3 x request/response x value/pointer/zero prototype, each followed on the same registry by the same plugin again, by another plugin containing the same struct type and (fresh registry) preceded by an unrelated refusal; secret-looking fields promoted from embedded structs (unexported type, pointer, exported type, below a struct field, tagged, harmless); " +
			"statically declared RECURSIVE types (self-recursive node, two mutually recursive structs entered through a wrapper field / through the other struct / bare behind the interface, secure field before or after the field that closes the cycle, a cycle of three with the secret in the last, a struct on the cycle without a secret of its own, slices of values, maps and interface fields on the cycle) filled three levels deep, every placement and surface, each family in a fresh type identity so that whatever a scrubber remembers per type is first asked through that entry; " +
			"distinct_nontrivial = cases other than the flat string type",
		Assumptions: []string{"Go arrays are excluded as documented", "the registry is only required to look through structs and pointers to structs"},
		Items:       func(tier string) []WorkItem { return shardItems("C17", 16) },
		Enum:        enumC17,
		ReplayInput: func(env *EnumEnv, raw []byte) []*Violation {
			var in struct {
				Secret    *secretCase   `json:"secret"`
				Registry  *registryCase `json:"registry"`
				Embedded  *embeddedCase `json:"embedded"`
				Recursive *secretCase   `json:"recursive"`
			}
			if err := jsonUnmarshal(raw, &in); err != nil {
				return []*Violation{{Property: "C17", Rule: "bad-input", Msg: err.Error()}}
			}
			var r, s, m string
			switch {
			case in.Secret != nil:
				r, s, m = checkSecretCase(*in.Secret)
			case in.Registry != nil:
				r, s, m = checkRegistryCase(*in.Registry)
			case in.Embedded != nil:
				r, s, m = checkEmbeddedCase(*in.Embedded)
			case in.Recursive != nil:
				r, s, m = checkRecursiveCase(*in.Recursive)
			}
			if r != "" {
				return []*Violation{{Property: "C17", Rule: r, Signature: s, Msg: m}}
			}
			return nil
		},
	})
}
