package mc

import (
	"encoding/json"
	"fmt"
	"testing"
)

func runCrashItem(e *Explorer, pd *PropDef, it *WorkItem, res *WorkResult) {
	res.Err = "crash layer not built yet"
}

func replayCrash(t *testing.T, pd *PropDef, sc *Scenario, choices []string, v Violation) int {
	fmt.Println("crash layer not built yet")
	return 2
}

func replayInput(t *testing.T, pd *PropDef, v Violation, input json.RawMessage) int {
	fmt.Println("input replay not built yet")
	return 2
}
