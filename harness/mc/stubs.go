package mc

import (
	"encoding/json"
	"fmt"
	"sync"
	"testing"
)

// crashRef carries the uninterrupted outcome of a crash scenario (by scenario name) to the recovery monitors.
var crashRef sync.Map

func replayInput(t *testing.T, pd *PropDef, v Violation, input json.RawMessage) int {
	if pd.ReplayInput == nil {
		fmt.Println("no input replay for", pd.ID)
		return 2
	}
	fmt.Printf("input: %s\n", string(input))
	vs := pd.ReplayInput(&EnumEnv{T: t, Tier: *flagTier}, input)
	code := 0
	for _, vv := range vs {
		fmt.Printf("VIOLATION property=%s replay=%s\n  rule=%s signature=%s: %s\n", vv.Property, *flagReplay, vv.Rule, vv.Signature, vv.Msg)
		code = 1
	}
	if code == 0 {
		fmt.Println("no violation on this tree for this input")
	}
	return code
}
