package mc

import (
	"encoding/json"
	"fmt"
	"sync"
	"testing"
)

// crashRef carries the uninterrupted outcome of a crash scenario (by scenario name) to the recovery monitors.
var crashRef sync.Map

func replayInput(t *testing.T, pd *PropDef, v Violation, input json.RawMessage) int {
	fmt.Println("input replay not built yet")
	return 2
}
