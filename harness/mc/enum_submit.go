package mc

import (
	"context"
	"fmt"
	"math"
	"sort"
	"strings"
	"time"

	coercion "github.com/element-of-surprise/coercion"
	"github.com/element-of-surprise/coercion/plugins"
	"github.com/element-of-surprise/coercion/plugins/registry"
	"github.com/element-of-surprise/coercion/workflow"
	"github.com/element-of-surprise/coercion/workflow/storage/sqlite"
	"github.com/google/uuid"
	bctx "github.com/gostdlib/base/context"
	"github.com/gostdlib/base/retry/exponential"
	zsqlite "zombiezen.com/go/sqlite"
	"zombiezen.com/go/sqlite/sqlitex"
)

// simplePlug is a plugin that answers at once (no gates): used by the sequential enumerators.
type simplePlug struct {
	name  string
	check bool
}

// SReq is the request of simplePlug; Bad makes ValidateReq fail.
type SReq struct {
	Arg string
	Bad bool
	F   float64 // NaN cannot be encoded by the stores: the plan is well formed, yet storing it fails midway
}

type SResp struct{ Arg string }

func (p *simplePlug) Name() string { return p.name }
func (p *simplePlug) Execute(ctx context.Context, req any) (any, *plugins.Error) {
	return SResp{Arg: "ok"}, nil
}
func (p *simplePlug) ValidateReq(req any) error {
	r, ok := req.(SReq)
	if !ok {
		return fmt.Errorf("bad request type %T", req)
	}
	if r.Bad {
		return fmt.Errorf("request rejected")
	}
	return nil
}
func (p *simplePlug) Request() any  { return SReq{} }
func (p *simplePlug) Response() any { return SResp{} }
func (p *simplePlug) IsCheck() bool { return p.check }
func (p *simplePlug) Init() error   { return nil }
func (p *simplePlug) RetryPolicy() exponential.Policy {
	return exponential.Policy{InitialInterval: time.Second, Multiplier: 2, MaxInterval: time.Minute}
}

func simpleRegistry() *registry.Register {
	reg := registry.New()
	reg.MustRegister(&simplePlug{name: "act"})
	reg.MustRegister(&simplePlug{name: "chk", check: true})
	return reg
}

// ---------------------------------------------------------------------------------------------
// Base shapes and mutations.

func sAction(name, plug string) *workflow.Action {
	return &workflow.Action{Name: name, Descr: name, Plugin: plug, Req: SReq{Arg: name}}
}

func sChecks(name string, n int) *workflow.Checks {
	c := &workflow.Checks{}
	for i := 0; i < n; i++ {
		c.Actions = append(c.Actions, sAction(fmt.Sprintf("%s/a%d", name, i), "chk"))
	}
	return c
}

// basePlan builds base shape number k (fresh objects every time).
func basePlan(k int) *workflow.Plan {
	switch k {
	case 0: // minimal
		return &workflow.Plan{Name: "p", Descr: "p", Blocks: []*workflow.Block{{Name: "b0", Descr: "b0", Sequences: []*workflow.Sequence{{Name: "s0", Descr: "s0", Actions: []*workflow.Action{sAction("b0/s0/a0", "act")}}}}}}
	case 1: // medium: the mutation target
		return &workflow.Plan{Name: "p", Descr: "p", Meta: []byte("m"), GroupID: workflow.NewV7(),
			PreChecks: sChecks("p/pre", 1), DeferredChecks: sChecks("p/def", 1),
			Blocks: []*workflow.Block{
				{Name: "b0", Descr: "b0", Concurrency: 2, ToleratedFailures: -1, PostChecks: sChecks("b0/post", 1),
					Sequences: []*workflow.Sequence{
						{Name: "s0", Descr: "s0", Actions: []*workflow.Action{sAction("b0/s0/a0", "act"), sAction("b0/s0/a1", "act")}},
						{Name: "s1", Descr: "s1", Actions: []*workflow.Action{sAction("b0/s1/a0", "act")}}}},
				{Name: "b1", Descr: "b1", Sequences: []*workflow.Sequence{{Name: "s0", Descr: "s0", Actions: []*workflow.Action{sAction("b1/s0/a0", "act")}}}}}}
	case 2: // every check group at both levels
		return basePlanAllGroups()
	default: // 3+: the grid of valid shapes: every subset of the five check groups on the plan (3..34) and on the block (35..66)
		g := k - 3
		level, mask := g/32, g%32
		p := &workflow.Plan{Name: "p", Descr: "p"}
		b := &workflow.Block{Name: "b0", Descr: "b0", Sequences: []*workflow.Sequence{{Name: "s0", Descr: "s0", Actions: []*workflow.Action{sAction("b0/s0/a0", "act")}}}}
		p.Blocks = []*workflow.Block{b, {Name: "b1", Descr: "b1", Sequences: []*workflow.Sequence{{Name: "s0", Descr: "s0", Actions: []*workflow.Action{sAction("b1/s0/a0", "act")}}}}}
		set := func(by, pre, cont, post, def **workflow.Checks, prefix string) {
			for gi, slot := range []**workflow.Checks{by, pre, cont, post, def} {
				if mask&(1<<gi) != 0 {
					*slot = sChecks(fmt.Sprintf("%s/g%d", prefix, gi), 1)
				}
			}
		}
		if level == 0 {
			set(&p.BypassChecks, &p.PreChecks, &p.ContChecks, &p.PostChecks, &p.DeferredChecks, "p")
		} else {
			set(&b.BypassChecks, &b.PreChecks, &b.ContChecks, &b.PostChecks, &b.DeferredChecks, "b0")
		}
		return p
	}
}

func basePlanAllGroups() *workflow.Plan {
	{
		p := &workflow.Plan{Name: "p", Descr: "p", BypassChecks: sChecks("p/by", 1), PreChecks: sChecks("p/pre", 2), ContChecks: sChecks("p/cont", 1), PostChecks: sChecks("p/post", 1), DeferredChecks: sChecks("p/def", 1)}
		b := &workflow.Block{Name: "b0", Descr: "b0", BypassChecks: sChecks("b0/by", 1), PreChecks: sChecks("b0/pre", 1), ContChecks: sChecks("b0/cont", 2), PostChecks: sChecks("b0/post", 1), DeferredChecks: sChecks("b0/def", 1),
			Sequences: []*workflow.Sequence{{Name: "s0", Descr: "s0", Actions: []*workflow.Action{sAction("b0/s0/a0", "act")}}}}
		p.Blocks = []*workflow.Block{b}
		return p
	}
}

// objRef addresses an object of a plan by walking order.
type objRef struct {
	kind     string // plan checks block seq action
	obj      any
	inChecks bool
	parent   any
	index    int // index in the parent's slice (blocks, sequences, actions)
}

func listObjects(p *workflow.Plan) []objRef {
	var out []objRef
	out = append(out, objRef{kind: "plan", obj: p})
	addChecks := func(c *workflow.Checks, parent any) {
		if c == nil {
			return
		}
		out = append(out, objRef{kind: "checks", obj: c, parent: parent})
		for i, a := range c.Actions {
			out = append(out, objRef{kind: "action", obj: a, inChecks: true, parent: c, index: i})
		}
	}
	addChecks(p.BypassChecks, p)
	addChecks(p.PreChecks, p)
	addChecks(p.ContChecks, p)
	addChecks(p.PostChecks, p)
	addChecks(p.DeferredChecks, p)
	for bi, b := range p.Blocks {
		out = append(out, objRef{kind: "block", obj: b, parent: p, index: bi})
		addChecks(b.BypassChecks, b)
		addChecks(b.PreChecks, b)
		addChecks(b.ContChecks, b)
		addChecks(b.PostChecks, b)
		addChecks(b.DeferredChecks, b)
		for si, s := range b.Sequences {
			out = append(out, objRef{kind: "seq", obj: s, parent: b, index: si})
			for ai, a := range s.Actions {
				out = append(out, objRef{kind: "action", obj: a, parent: s, index: ai})
			}
		}
	}
	return out
}

// mutation is one catalogue entry: it applies to objects of a kind and says whether the result is still well formed.
type mutation struct {
	name         string
	kind         string // object kind it applies to ("any-keyed" = checks block seq action)
	valid        bool   // the mutated plan is still well formed (when nothing else is wrong)
	startRefused bool   // Submit accepts, Start must refuse
	apply        func(o objRef)
}

var fixedV7 = uuid.MustParse("01890000-0000-7000-8000-0000000000aa")
var fixedV4 = uuid.MustParse("6ba7b810-9dad-41d1-80b4-00c04fd430c8")

func setKey(o objRef, k uuid.UUID) {
	switch t := o.obj.(type) {
	case *workflow.Checks:
		t.Key = k
	case *workflow.Block:
		t.Key = k
	case *workflow.Sequence:
		t.Key = k
	case *workflow.Action:
		t.Key = k
	}
}

func setID(o objRef) {
	id := workflow.NewV7()
	switch t := o.obj.(type) {
	case *workflow.Plan:
		t.ID = id
	case *workflow.Checks:
		t.ID = id
	case *workflow.Block:
		t.ID = id
	case *workflow.Sequence:
		t.ID = id
	case *workflow.Action:
		t.ID = id
	}
}

func setState(o objRef) {
	st := &workflow.State{}
	switch t := o.obj.(type) {
	case *workflow.Plan:
		t.State = st
	case *workflow.Checks:
		t.State = st
	case *workflow.Block:
		t.State = st
	case *workflow.Sequence:
		t.State = st
	case *workflow.Action:
		t.State = st
	}
}

func setName(o objRef, v string) {
	switch t := o.obj.(type) {
	case *workflow.Plan:
		t.Name = v
	case *workflow.Block:
		t.Name = v
	case *workflow.Sequence:
		t.Name = v
	case *workflow.Action:
		t.Name = v
	}
}

func setDescr(o objRef, v string) {
	switch t := o.obj.(type) {
	case *workflow.Plan:
		t.Descr = v
	case *workflow.Block:
		t.Descr = v
	case *workflow.Sequence:
		t.Descr = v
	case *workflow.Action:
		t.Descr = v
	}
}

var mutations = []mutation{
	{name: "id-preset", kind: "any", apply: setID},
	{name: "state-preset", kind: "any", apply: setState},
	{name: "name-empty", kind: "named", apply: func(o objRef) { setName(o, "") }},
	{name: "name-whitespace", kind: "named", apply: func(o objRef) { setName(o, " \t") }},
	{name: "descr-empty", kind: "named", apply: func(o objRef) { setDescr(o, "") }},
	{name: "descr-whitespace", kind: "named", apply: func(o objRef) { setDescr(o, "  ") }},
	{name: "key-v7", kind: "keyed", valid: true, apply: func(o objRef) { setKey(o, workflow.NewV7()) }},
	{name: "key-v4", kind: "keyed", apply: func(o objRef) { setKey(o, fixedV4) }},
	{name: "key-shared", kind: "keyed", valid: true, apply: func(o objRef) { setKey(o, fixedV7) }}, // valid alone, invalid when applied to two objects
	{name: "reason-preset", kind: "plan", apply: func(o objRef) { o.obj.(*workflow.Plan).Reason = workflow.FRBlock }},
	{name: "submittime-preset", kind: "plan", apply: func(o objRef) { o.obj.(*workflow.Plan).SubmitTime = time.Unix(1, 0) }},
	{name: "blocks-nil", kind: "plan", apply: func(o objRef) { o.obj.(*workflow.Plan).Blocks = nil }},
	{name: "blocks-empty", kind: "plan", apply: func(o objRef) { o.obj.(*workflow.Plan).Blocks = []*workflow.Block{} }},
	{name: "block-nil-element", kind: "plan", apply: func(o objRef) { p := o.obj.(*workflow.Plan); p.Blocks = append(p.Blocks, nil) }},
	{name: "actions-nil", kind: "checks", apply: func(o objRef) { o.obj.(*workflow.Checks).Actions = nil }},
	{name: "actions-empty", kind: "checks", apply: func(o objRef) { o.obj.(*workflow.Checks).Actions = []*workflow.Action{} }},
	{name: "action-nil-element", kind: "checks", apply: func(o objRef) { c := o.obj.(*workflow.Checks); c.Actions = append(c.Actions, nil) }},
	{name: "sequences-nil", kind: "block", apply: func(o objRef) { o.obj.(*workflow.Block).Sequences = nil }},
	{name: "sequence-nil-element", kind: "block", apply: func(o objRef) { b := o.obj.(*workflow.Block); b.Sequences = append(b.Sequences, nil) }},
	{name: "concurrency-negative", kind: "block", valid: true, apply: func(o objRef) { o.obj.(*workflow.Block).Concurrency = -3 }},
	{name: "actions-nil", kind: "seq", apply: func(o objRef) { o.obj.(*workflow.Sequence).Actions = nil }},
	{name: "action-nil-element", kind: "seq", apply: func(o objRef) { s := o.obj.(*workflow.Sequence); s.Actions = append(s.Actions, nil) }},
	{name: "plugin-empty", kind: "action", apply: func(o objRef) { o.obj.(*workflow.Action).Plugin = "" }},
	{name: "plugin-unknown", kind: "action", apply: func(o objRef) { o.obj.(*workflow.Action).Plugin = "nope" }},
	{name: "attempts-preset", kind: "action", apply: func(o objRef) { o.obj.(*workflow.Action).Attempts = []*workflow.Attempt{} }},
	{name: "timeout-1s", kind: "action", apply: func(o objRef) { o.obj.(*workflow.Action).Timeout = time.Second }},
	{name: "timeout-5s-1ns", kind: "action", apply: func(o objRef) { o.obj.(*workflow.Action).Timeout = 5*time.Second - 1 }},
	{name: "timeout-negative", kind: "action", apply: func(o objRef) { o.obj.(*workflow.Action).Timeout = -time.Second }},
	{name: "timeout-5s", kind: "action", valid: true, apply: func(o objRef) { o.obj.(*workflow.Action).Timeout = 5 * time.Second }},
	{name: "retries-negative", kind: "action", valid: true, apply: func(o objRef) { o.obj.(*workflow.Action).Retries = -1 }},
	{name: "request-rejected", kind: "action", apply: func(o objRef) { o.obj.(*workflow.Action).Req = SReq{Bad: true} }},
	{name: "request-wrong-type", kind: "action", apply: func(o objRef) { o.obj.(*workflow.Action).Req = "a string" }},
	{name: "request-nil", kind: "action", apply: func(o objRef) { o.obj.(*workflow.Action).Req = nil }},
	{name: "register-preset", kind: "action", apply: func(o objRef) { o.obj.(*workflow.Action).SetRegister(registry.New()) }},
	// the request is accepted by the plugin but cannot be stored: whatever Submit answers, a refusal must leave nothing
	{name: "request-unstorable", kind: "action", valid: true, apply: func(o objRef) { o.obj.(*workflow.Action).Req = SReq{Arg: "x", F: math.NaN()} }},
	{name: "plugin-kind-swapped", kind: "action", valid: true, startRefused: true, apply: func(o objRef) {
		a := o.obj.(*workflow.Action)
		if o.inChecks {
			a.Plugin = "act"
		} else {
			a.Plugin = "chk" // a check plugin in a sequence is allowed
		}
	}},
}

func (m mutation) appliesTo(o objRef) bool {
	switch m.kind {
	case "any":
		return true
	case "named":
		return o.kind != "checks"
	case "keyed":
		return o.kind != "plan"
	default:
		return m.kind == o.kind
	}
}

// submitCase is one input: base shape plus up to two (object index, mutation index) pairs.
type submitCase struct {
	Base int      `json:"base"`
	Muts [][2]int `json:"muts"` // [object index in walking order, mutation index]
}

func (c submitCase) describe() string {
	var parts []string
	for _, m := range c.Muts {
		parts = append(parts, fmt.Sprintf("%s@obj%d", mutations[m[1]].name, m[0]))
	}
	return fmt.Sprintf("base%d[%s]", c.Base, strings.Join(parts, ","))
}

// build applies the mutations and returns the plan, whether it is still well formed, and whether Start must refuse it.
func (c submitCase) build() (p *workflow.Plan, valid, startRefused bool) {
	p = basePlan(c.Base)
	objs := listObjects(p)
	valid = true
	shared := 0
	seen := map[[2]int]bool{}
	for _, m := range c.Muts {
		if seen[m] {
			continue
		}
		seen[m] = true
		mu := mutations[m[1]]
		o := objs[m[0]]
		mu.apply(o)
		if !mu.valid {
			valid = false
		}
		if mu.name == "key-shared" {
			shared++
		}
		if mu.startRefused && o.inChecks {
			startRefused = true
		}
	}
	if shared >= 2 {
		valid = false // the same key on two objects
	}
	// mutations on the same object can override each other: validity is decided from the final plan alone
	return p, refValid(p), refStartRefused(p)
}

// refValid is the independent validator: it decides from the final plan alone whether it is well formed.
func refValid(p *workflow.Plan) bool {
	blank := func(s string) bool { return strings.TrimSpace(s) == "" }
	keys := map[uuid.UUID]bool{}
	keyOK := func(k uuid.UUID) bool {
		if k == uuid.Nil {
			return true
		}
		if k.Version() != 7 || keys[k] {
			return false
		}
		keys[k] = true
		return true
	}
	action := func(a *workflow.Action) bool {
		if a == nil || a.ID != uuid.Nil || a.State != nil || a.Attempts != nil || a.HasRegister() || !keyOK(a.Key) {
			return false
		}
		if blank(a.Name) || blank(a.Descr) || blank(a.Plugin) {
			return false
		}
		if a.Timeout != 0 && a.Timeout < 5*time.Second {
			return false
		}
		if a.Plugin != "act" && a.Plugin != "chk" {
			return false
		}
		r, ok := a.Req.(SReq)
		return ok && !r.Bad
	}
	checks := func(c *workflow.Checks) bool {
		if c == nil {
			return true
		}
		if c.ID != uuid.Nil || c.State != nil || !keyOK(c.Key) || len(c.Actions) == 0 {
			return false
		}
		for _, a := range c.Actions {
			if !action(a) {
				return false
			}
		}
		return true
	}
	if p == nil || p.ID != uuid.Nil || p.State != nil || p.Reason != workflow.FRUnknown || !p.SubmitTime.IsZero() || blank(p.Name) || blank(p.Descr) || len(p.Blocks) == 0 {
		return false
	}
	for _, c := range []*workflow.Checks{p.BypassChecks, p.PreChecks, p.ContChecks, p.PostChecks, p.DeferredChecks} {
		if !checks(c) {
			return false
		}
	}
	for _, b := range p.Blocks {
		if b == nil || b.ID != uuid.Nil || b.State != nil || !keyOK(b.Key) || blank(b.Name) || blank(b.Descr) || len(b.Sequences) == 0 {
			return false
		}
		for _, c := range []*workflow.Checks{b.BypassChecks, b.PreChecks, b.ContChecks, b.PostChecks, b.DeferredChecks} {
			if !checks(c) {
				return false
			}
		}
		for _, sq := range b.Sequences {
			if sq == nil || sq.ID != uuid.Nil || sq.State != nil || !keyOK(sq.Key) || blank(sq.Name) || blank(sq.Descr) || len(sq.Actions) == 0 {
				return false
			}
			for _, a := range sq.Actions {
				if !action(a) {
					return false
				}
			}
		}
	}
	return true
}

// refStartRefused: some check action uses a plugin that is not a check plugin.
func refStartRefused(p *workflow.Plan) bool {
	bad := false
	chk := func(c *workflow.Checks) {
		if c == nil {
			return
		}
		for _, a := range c.Actions {
			if a != nil && a.Plugin == "act" {
				bad = true
			}
		}
	}
	for _, c := range []*workflow.Checks{p.BypassChecks, p.PreChecks, p.ContChecks, p.PostChecks, p.DeferredChecks} {
		chk(c)
	}
	for _, b := range p.Blocks {
		if b == nil {
			continue
		}
		for _, c := range []*workflow.Checks{b.BypassChecks, b.PreChecks, b.ContChecks, b.PostChecks, b.DeferredChecks} {
			chk(c)
		}
	}
	return bad
}

var sqliteTables = []string{"plans", "blocks", "checks", "sequences", "actions"}

func rowCounts(ctx context.Context, v *sqlite.Vault) (map[string]int, error) {
	conn, err := v.Pool().Take(ctx)
	if err != nil {
		return nil, err
	}
	defer v.Pool().Put(conn)
	out := map[string]int{}
	for _, t := range sqliteTables {
		n := -1
		err := sqlitex.ExecuteTransient(conn, "SELECT COUNT(*) FROM "+t, &sqlitex.ExecOptions{ResultFunc: func(stmt *zsqlite.Stmt) error {
			n = stmt.ColumnInt(0)
			return nil
		}})
		if err != nil {
			return nil, err
		}
		out[t] = n
	}
	return out, nil
}

var vaultSeq int

// hasUnstorableRequest walks a possibly malformed plan (nil elements) for a request that the stores cannot encode.
func hasUnstorableRequest(p *workflow.Plan) bool {
	found := false
	acts := func(as []*workflow.Action) {
		for _, a := range as {
			if a != nil {
				if r, ok := a.Req.(SReq); ok && r.F != r.F {
					found = true
				}
			}
		}
	}
	chk := func(cs ...*workflow.Checks) {
		for _, c := range cs {
			if c != nil {
				acts(c.Actions)
			}
		}
	}
	if p == nil {
		return false
	}
	chk(p.BypassChecks, p.PreChecks, p.ContChecks, p.PostChecks, p.DeferredChecks)
	for _, b := range p.Blocks {
		if b == nil {
			continue
		}
		chk(b.BypassChecks, b.PreChecks, b.ContChecks, b.PostChecks, b.DeferredChecks)
		for _, sq := range b.Sequences {
			if sq != nil {
				acts(sq.Actions)
			}
		}
	}
	return found
}

func checkSubmitCase(c submitCase) (rule, sig, msg string) {
	defer func() {
		if r := recover(); r != nil {
			rule, sig, msg = "submit-panicked", c.mutNames(), fmt.Sprintf("%s: panic: %v", c.describe(), r)
		}
	}()
	ctx := bctx.Background()
	reg := simpleRegistry()
	vaultSeq++
	v, err := sqlite.New(ctx, fmt.Sprintf("c16-%d", vaultSeq), reg, sqlite.WithInMemory())
	if err != nil {
		return "harness", "vault", err.Error()
	}
	defer v.Close(ctx)
	ws, err := coercion.New(ctx, reg, v, coercion.WithNoRecovery())
	if err != nil {
		return "harness", "workstream", err.Error()
	}
	p, valid, startRefused := c.build()
	unstorable := hasUnstorableRequest(p)
	before := time.Now()
	id, serr := ws.Submit(ctx, p)
	switch {
	case unstorable:
		// the statement does not say whether such a plan is admitted; it does say what a refusal leaves behind
		if serr == nil {
			return "", "", ""
		}
	case valid && serr != nil:
		return "well-formed-plan-rejected", c.mutNames(), fmt.Sprintf("%s is well formed but Submit returned: %v", c.describe(), serr)
	case !valid && serr == nil:
		return "malformed-plan-accepted", c.mutNames(), fmt.Sprintf("%s is malformed but Submit accepted it", c.describe())
	}
	counts, err := rowCounts(ctx, v)
	if err != nil {
		return "harness", "rowcounts", err.Error()
	}
	if serr != nil {
		for t, n := range counts {
			if n != 0 {
				return "rejected-plan-left-rows", c.mutNames(), fmt.Sprintf("%s was rejected (%v) but table %s holds %d rows", c.describe(), serr, t, n)
			}
		}
		return "", "", ""
	}
	// accepted: fresh pairwise-distinct v7 ids, pristine NotStarted state, submit time, default timeout
	stored, err := v.Read(ctx, id)
	if err != nil {
		return "accepted-plan-unreadable", c.mutNames(), fmt.Sprintf("%s: %v", c.describe(), err)
	}
	ids := map[uuid.UUID]bool{}
	for _, o := range listObjects(stored) {
		var oid uuid.UUID
		var st *workflow.State
		switch t := o.obj.(type) {
		case *workflow.Plan:
			oid, st = t.ID, t.State
			if t.SubmitTime.IsZero() || t.SubmitTime.Before(before.Add(-time.Second)) || t.Reason != workflow.FRUnknown {
				return "accepted-plan-not-pristine", "plan-fields", fmt.Sprintf("%s: submit time %v reason %v", c.describe(), t.SubmitTime, t.Reason)
			}
		case *workflow.Checks:
			oid, st = t.ID, t.State
		case *workflow.Block:
			oid, st = t.ID, t.State
			if t.Concurrency < 1 {
				return "accepted-plan-not-pristine", "concurrency-default", fmt.Sprintf("%s: block concurrency %d", c.describe(), t.Concurrency)
			}
		case *workflow.Sequence:
			oid, st = t.ID, t.State
		case *workflow.Action:
			oid, st = t.ID, t.State
			if t.Timeout < 5*time.Second {
				return "accepted-plan-not-pristine", "timeout-default", fmt.Sprintf("%s: stored action timeout %v", c.describe(), t.Timeout)
			}
			if len(t.Attempts) != 0 || t.Retries < 0 {
				return "accepted-plan-not-pristine", "action-fields", fmt.Sprintf("%s: attempts %d retries %d", c.describe(), len(t.Attempts), t.Retries)
			}
		}
		if oid == uuid.Nil || oid.Version() != 7 {
			return "accepted-plan-ids", "not-v7", fmt.Sprintf("%s: object %s has id %s", c.describe(), o.kind, oid)
		}
		if ids[oid] {
			return "accepted-plan-ids", "duplicate", fmt.Sprintf("%s: id %s occurs twice", c.describe(), oid)
		}
		ids[oid] = true
		if st == nil || st.Status != workflow.NotStarted || !st.Start.IsZero() || !st.End.IsZero() {
			return "accepted-plan-not-pristine", "state", fmt.Sprintf("%s: object %s has state %+v", c.describe(), o.kind, st)
		}
	}
	if len(ids) != len(listObjects(p)) {
		return "accepted-plan-object-count", c.mutNames(), fmt.Sprintf("%s: submitted %d objects, stored %d", c.describe(), len(listObjects(p)), len(ids))
	}
	if startRefused {
		if err := ws.Start(ctx, id); err == nil {
			ws.Wait(ctx, id)
			return "start-accepted-non-check-plugin-in-checks", "start", fmt.Sprintf("%s: Start accepted a plan whose check action uses a non-check plugin", c.describe())
		}
	}
	return "", "", ""
}

// mutNames is the signature of a case: the mutations that make it malformed (all of them when none does); nil
// elements dominate because they decide how far Submit gets.
func (c submitCase) mutNames() string {
	var invalid, all []string
	shared := 0
	for _, m := range c.Muts {
		mu := mutations[m[1]]
		all = append(all, mu.name)
		if strings.HasSuffix(mu.name, "nil-element") {
			return "nil-element"
		}
		if mu.name == "key-shared" {
			shared++
		}
		if !mu.valid {
			invalid = append(invalid, mu.name)
		}
	}
	if shared >= 2 {
		invalid = append(invalid, "key-shared-twice")
	}
	if len(invalid) == 0 {
		invalid = all
	}
	sort.Strings(invalid)
	return strings.Join(invalid, "+")
}

func enumC16(env *EnumEnv, it *WorkItem) *EnumResult {
	res := &EnumResult{Exhaustive: true}
	reported := map[string]bool{}
	idx := 0
	g := &budgetGuard{env: env, res: res}
	eval := func(c submitCase) {
		idx++
		if idx%it.NShards != it.Shard || g.over() {
			return
		}
		res.Evaluations++
		if len(c.Muts) > 0 {
			res.Distinct++
		}
		if rule, sig, msg := checkSubmitCase(c); rule != "" {
			k := rule + "|" + sig
			if !reported[k] {
				reported[k] = true
				res.Found = append(res.Found, &EnumFound{V: Violation{Property: "C16", Rule: rule, Signature: sig, Msg: msg}, Input: c})
			}
		}
		if len(res.Samples) < 2 && len(c.Muts) == 2 && idx%97 == 0 {
			res.Samples = append(res.Samples, c.describe())
		}
	}
	// every valid shape of the grid must be admitted as it is (and obey the admission rules)
	g.phase = "grid of valid shapes"
	for base := 3; base < 3+64; base++ {
		eval(submitCase{Base: base})
	}
	for base := 0; base < 3; base++ {
		g.phase = fmt.Sprintf("base shape %d: single mutations, then pairs", base)
		eval(submitCase{Base: base})
		objs := listObjects(basePlan(base))
		var singles [][2]int
		for oi, o := range objs {
			for mi, m := range mutations {
				if m.appliesTo(o) {
					singles = append(singles, [2]int{oi, mi})
				}
			}
		}
		for _, s := range singles {
			eval(submitCase{Base: base, Muts: [][2]int{s}})
		}
		// every pair of mutations on the medium shape (quick), on all shapes (thorough)
		if base == 1 || env.Tier == "thorough" {
			for i := 0; i < len(singles); i++ {
				for j := i + 1; j < len(singles); j++ {
					if singles[i][0] == singles[j][0] && mutations[singles[i][1]].name == mutations[singles[j][1]].name {
						continue
					}
					eval(submitCase{Base: base, Muts: [][2]int{singles[i], singles[j]}})
				}
			}
		} else {
			// the shared key on every pair of keyed objects
			for i := 0; i < len(singles); i++ {
				for j := i + 1; j < len(singles); j++ {
					if mutations[singles[i][1]].name == "key-shared" && mutations[singles[j][1]].name == "key-shared" {
						eval(submitCase{Base: base, Muts: [][2]int{singles[i], singles[j]}})
					}
				}
			}
		}
	}
	return res
}

func init() {
	register(&PropDef{
		ID:    "C16",
		Level: "exploration",
		Rule: "three base shapes (minimal, medium, every check group at both levels) and the grid of 64 valid shapes (every subset of the five check groups on the plan or on a block) must be accepted; EVERY single mutation from a catalogue of 37 (a request the plugin accepts but the store cannot encode - verdict free, a refusal must leave nothing -, blank/whitespace names and descriptions, missing or nil children, pre-set id/state/attempts/reason/submit time/register, key v7/v4/shared, timeouts 1 s / 5 s-1 ns / negative / 5 s, " +
			"unknown or empty plugin, rejected/wrong-typed/nil request, swapped plugin kind, negative retries/concurrency) at EVERY object of the tree, and EVERY pair of them on the medium shape (all shapes in the thorough tier); each case runs Submit on a real Workstream over a fresh in-memory sqlite vault; " +
			"oracle: independent validity flag of the mutations; on rejection all five tables are empty, on acceptance the stored plan has pairwise-distinct v7 ids, pristine NotStarted state, submit time, defaults, and Start refuses non-check plugins in check groups; distinct_nontrivial = cases with at least one mutation",
		Assumptions: []string{"mutations are independent except where listed (shared key needs two objects; later timeout/plugin mutations override earlier ones and are re-evaluated on the final plan)"},
		Items:       func(tier string) []WorkItem { return shardItems("C16", 16) },
		Enum:        enumC16,
		ReplayInput: func(env *EnumEnv, raw []byte) []*Violation {
			var c submitCase
			if err := jsonUnmarshal(raw, &c); err != nil {
				return []*Violation{{Property: "C16", Rule: "bad-input", Msg: err.Error()}}
			}
			if rule, sig, msg := checkSubmitCase(c); rule != "" {
				return []*Violation{{Property: "C16", Rule: rule, Signature: sig, Msg: msg}}
			}
			return nil
		},
	})
}
