package mc

import (
	"fmt"
	"strings"

	"github.com/element-of-surprise/coercion/workflow"
)

// C01: declared order and gating. Every rule is evaluated for each new plugin invocation against the
// events that precede it.
type monC01 struct{}

func isSeqAction(oi *ObjInfo) bool { return oi != nil && oi.Kind == "action" && oi.Seq >= 0 }

// recoveryOrder: the statement for a restarted process (crash layer). What was durable at the crash counts as done: an
// action is invoked only when its predecessor in the sequence succeeded (durably before the crash or in this life),
// only when every earlier block is stored finished, and a sequence that had not been started before the crash only
// after the plan's and the block's pre-checks passed (durably before the crash or in this life).
func (monC01) recoveryOrder(x *Exec) {
	from, to := newEvents(x, "c01r")
	if from == to {
		return
	}
	h := NewHist(x, -1)
	for k := from; k < to; k++ {
		e := &h.Events[k]
		if e.Kind != "INV" {
			continue
		}
		oi := x.W.Objs[e.Path]
		if !isSeqAction(oi) {
			continue
		}
		cv := crashView(x, oi.Plan)
		if cv == nil {
			continue
		}
		planPath := fmt.Sprintf("P%d", oi.Plan)
		rep := func(rule, sig, msg string) {
			x.Report(&Violation{Property: "C01", Rule: rule, Signature: sig, Msg: fmt.Sprintf("restarted process, invocation #%d of %s: %s", e.N, e.Path, msg)})
		}
		if oi.Idx > 0 {
			pp := fmt.Sprintf("%s/A%d", oi.Parent, oi.Idx-1)
			okNow := false
			for _, c := range h.callsBefore(pp, k) {
				if c.OK() {
					okNow = true
				}
			}
			if !okNow && !durableSuccess(cv.Objs[pp]) {
				rep("action-before-predecessor-succeeded", "seq-order-across-crash", fmt.Sprintf("previous action %s succeeded neither durably before the crash (stored %s) nor since the restart", pp, statusOf(cv.Objs[pp])))
			}
		}
		if p, err := x.ReadPlan(oi.Plan); err == nil {
			v := View(p)
			for bi := 0; bi < oi.Block; bi++ {
				bp := fmt.Sprintf("%s/B%d", planPath, bi)
				if bo := v.Objs[bp]; bo != nil && !terminal(bo.Status) {
					rep("block-out-of-order", "blocks-across-crash", fmt.Sprintf("earlier block %s is stored %s", bp, bo.Status))
				}
			}
		}
		if ss := cv.Objs[oi.Parent]; ss != nil && ss.Status == workflow.NotStarted {
			for _, scope := range []string{planPath, fmt.Sprintf("%s/B%d", planPath, oi.Block)} {
				_, pre, _, _, _ := x.scopeChecks(scope)
				if pre == nil {
					continue
				}
				po := cv.Objs[scope+"/Pre"]
				if !(po != nil && po.Status == workflow.Completed) && !h.groupPassed(x, scope+"/Pre", k) {
					rep("sequence-action-before-prechecks-passed", "pre-across-crash", fmt.Sprintf("the pre-checks of %s passed neither durably before the crash (stored %s) nor since the restart", scope, statusOf(po)))
				}
			}
		}
	}
}

func (m monC01) AtState(x *Exec) {
	if _, rec := recoveryMode(x); rec {
		m.recoveryOrder(x)
		return
	}
	from, to := newEvents(x, "c01")
	if from == to {
		return
	}
	h := NewHist(x, 0)
	for k := from; k < to; k++ {
		e := &h.Events[k]
		if e.Kind != "INV" || e.Gen != 0 {
			continue
		}
		oi := x.W.Objs[e.Path]
		if oi == nil {
			continue
		}
		planPath := fmt.Sprintf("P%d", oi.Plan)
		rep := func(rule, sig, msg string) {
			x.Report(&Violation{Property: "C01", Rule: rule, Signature: sig, Msg: fmt.Sprintf("at invocation #%d of %s: %s", e.N, e.Path, msg)})
		}
		// (a) actions of a sequence one at a time, in order, each after the previous one succeeded.
		if isSeqAction(oi) {
			acts := x.seqActions(oi.Parent)
			for i, a := range acts {
				as := h.actionAt(a, k)
				if i < oi.Idx && !as.Done {
					rep("action-before-predecessor-succeeded", "seq-order", fmt.Sprintf("previous action %s has not finished successfully (invoked=%d inflight=%v failed=%v)", a.Path, as.Invoked, as.InFlight, as.Failed))
				}
				if i != oi.Idx && as.InFlight {
					rep("two-actions-of-sequence-in-flight", "seq-order", fmt.Sprintf("action %s of the same sequence is still in flight", a.Path))
				}
				if i > oi.Idx && as.Invoked > 0 {
					rep("action-after-successor", "seq-order", fmt.Sprintf("later action %s was already invoked", a.Path))
				}
			}
		}
		// (b) blocks one at a time in declared order.
		if oi.Block >= 0 {
			ps := &x.Sc.Plans[oi.Plan]
			for bi := range ps.Blocks {
				if bi == oi.Block {
					continue
				}
				bp := fmt.Sprintf("%s/B%d", planPath, bi)
				if bi < oi.Block {
					if p := h.anyInFlightUnder(x, bp, k, nil); p != "" {
						rep("block-started-while-earlier-block-active", "block-order", fmt.Sprintf("%s of earlier block %d is still in flight", p, bi))
					}
					for _, sp := range x.seqPaths(oi.Plan, bi) {
						ss := h.seqAt(x, sp, k)
						if ss.Started && !ss.Finished {
							rep("block-started-while-earlier-block-active", "block-order", fmt.Sprintf("sequence %s of earlier block %d has not finished", sp, bi))
						}
					}
				} else {
					for path, cs := range h.Calls {
						if strings.HasPrefix(path, bp+"/") && len(cs) > 0 && cs[0].InvIdx < k {
							rep("block-out-of-order", "block-order", fmt.Sprintf("%s of later block %d was invoked before", path, bi))
							break
						}
					}
				}
			}
		}
		// (c) no sequence action before the plan's and the block's pre-checks passed.
		if isSeqAction(oi) {
			_, ppre, _, _, _ := x.scopeChecks(planPath)
			if ppre != nil && !h.groupPassed(x, planPath+"/Pre", k) {
				rep("sequence-action-before-plan-prechecks-passed", "pre-gating", "the plan's pre-checks have not passed")
			}
			_, bpre, _, _, _ := x.scopeChecks(oi.Scope)
			if bpre != nil && !h.groupPassed(x, oi.Scope+"/Pre", k) {
				rep("sequence-action-before-block-prechecks-passed", "pre-gating", "the block's pre-checks have not passed")
			}
		}
		// (d)/(e) post-checks after every started sequence of the scope finished; deferred checks last.
		if oi.Group == "post" || oi.Group == "def" {
			scope := oi.Scope
			var seqs []string
			if so := x.W.Objs[scope]; so != nil && so.Kind == "plan" {
				for bi := range x.Sc.Plans[oi.Plan].Blocks {
					seqs = append(seqs, x.seqPaths(oi.Plan, bi)...)
				}
			} else {
				seqs = x.seqPaths(oi.Plan, oi.Block)
			}
			for _, sp := range seqs {
				ss := h.seqAt(x, sp, k)
				if ss.InFlight || (ss.Started && !ss.Finished) {
					rep(oi.Group+"-check-before-sequences-finished", "post-order", fmt.Sprintf("sequence %s started in this scope has not finished", sp))
				}
			}
			if oi.Group == "def" {
				if p := h.anyInFlightUnder(x, scope, k, func(o *ObjInfo) bool { return o.Scope == scope && o.Group == "post" }); p != "" {
					rep("deferred-check-while-post-check-in-flight", "post-order", fmt.Sprintf("post-check %s is still in flight", p))
				}
			}
		}
		// (e) nothing of a scope other than its continuous and deferred checks is invoked after its deferred checks began.
		if oi.Group != "cont" && oi.Group != "def" {
			scopes := []string{planPath}
			if oi.Block >= 0 {
				scopes = append(scopes, fmt.Sprintf("%s/B%d", planPath, oi.Block))
			}
			for _, sc := range scopes {
				for _, a := range x.groupActions(sc + "/Def") {
					if len(h.callsBefore(a.Path, k)) > 0 {
						rep("invocation-after-deferred-checks-began", "post-order", fmt.Sprintf("deferred check %s of %s was already invoked", a.Path, sc))
					}
				}
			}
		}
	}
}

func (monC01) AtEnd(x *Exec) {}
