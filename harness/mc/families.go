package mc

import "fmt"

func okSeqs(n, acts int) []SeqSpec {
	var out []SeqSpec
	for i := 0; i < n; i++ {
		var as []ActSpec
		for j := 0; j < acts; j++ {
			as = append(as, A())
		}
		out = append(out, SeqSpec{Actions: as})
	}
	return out
}

// FamilyConc: concurrency grid for C02.
func FamilyConc(tier string) []*Scenario {
	var out []*Scenario
	maxSeq := 4
	if tier == "thorough" {
		maxSeq = 5
	}
	for nseq := 2; nseq <= maxSeq; nseq++ {
		for _, conc := range []int{0, 1, 2, 3} {
			for _, acts := range []int{1, 2} {
				if acts == 2 && nseq > 3 {
					continue
				}
				sc := &Scenario{Family: "F-seq", Name: fmt.Sprintf("conc-n%d-c%d-a%d", nseq, conc, acts),
					Plans: []PlanSpec{{Blocks: []BlockSpec{{Seqs: okSeqs(nseq, acts), Conc: conc}}}}}
				out = append(out, sc)
			}
		}
	}
	// two blocks
	for _, conc := range []int{1, 2} {
		sc := &Scenario{Family: "F-seq", Name: fmt.Sprintf("conc-2blocks-c%d", conc),
			Plans: []PlanSpec{{Blocks: []BlockSpec{{Seqs: okSeqs(3, 1), Conc: conc}, {Seqs: okSeqs(2, 1), Conc: conc}}}}}
		out = append(out, sc)
	}
	// a failing sequence with tolerance
	out = append(out, &Scenario{Family: "F-seq", Name: "conc-fail-tol",
		Plans: []PlanSpec{{Blocks: []BlockSpec{{Seqs: []SeqSpec{Seq(A(Perm)), Seq(A()), Seq(A()), Seq(A())}, Conc: 2, Tol: 1}}}}})
	// two plans on one workstream
	out = append(out, &Scenario{Family: "F-seq", Name: "conc-2plans",
		Plans: []PlanSpec{
			{Blocks: []BlockSpec{{Seqs: okSeqs(3, 1), Conc: 2}}},
			{Blocks: []BlockSpec{{Seqs: okSeqs(2, 1), Conc: 1}}},
		}})
	return out
}
