package mc

import (
	"encoding/json"
	"fmt"
	"strings"
)

func jsonUnmarshal(b []byte, v any) error { return json.Unmarshal(b, v) }

func okSeqs(n, acts int) []SeqSpec {
	var out []SeqSpec
	for i := 0; i < n; i++ {
		var as []ActSpec
		for j := 0; j < acts; j++ {
			as = append(as, A())
		}
		out = append(out, SeqSpec{Actions: as})
	}
	return out
}

// FamilyConc: concurrency grid for C02.
func FamilyConc(tier string) []*Scenario {
	var out []*Scenario
	maxSeq := 4
	if tier == "thorough" {
		maxSeq = 5
	}
	for nseq := 2; nseq <= maxSeq; nseq++ {
		for _, conc := range []int{0, 1, 2, 3} {
			for _, acts := range []int{1, 2} {
				if acts == 2 && nseq > 3 {
					continue
				}
				sc := &Scenario{Family: "F-seq", Name: fmt.Sprintf("conc-n%d-c%d-a%d", nseq, conc, acts),
					Plans: []PlanSpec{{Blocks: []BlockSpec{{Seqs: okSeqs(nseq, acts), Conc: conc}}}}}
				out = append(out, sc)
			}
		}
	}
	// two blocks
	for _, conc := range []int{1, 2} {
		sc := &Scenario{Family: "F-seq", Name: fmt.Sprintf("conc-2blocks-c%d", conc),
			Plans: []PlanSpec{{Blocks: []BlockSpec{{Seqs: okSeqs(3, 1), Conc: conc}, {Seqs: okSeqs(2, 1), Conc: conc}}}}}
		out = append(out, sc)
	}
	// a failing sequence with tolerance
	out = append(out, &Scenario{Family: "F-seq", Name: "conc-fail-tol",
		Plans: []PlanSpec{{Blocks: []BlockSpec{{Seqs: []SeqSpec{Seq(A(Perm)), Seq(A()), Seq(A()), Seq(A())}, Conc: 2, Tol: 1}}}}})
	// an action that overruns its timeout (the plugin honours its context): the failed sequence is tolerated and the
	// next sequences / the next block start; a call that was not told to stop would still be in flight then
	for _, v := range []struct {
		name      string
		conc, tol int
		seqs      []SeqSpec
	}{
		{"c1-tall", 1, -1, []SeqSpec{Seq(A(Overrun)), Seq(A()), Seq(A())}},
		{"c1-t1-second", 1, 1, []SeqSpec{Seq(A()), Seq(A(Overrun), A()), Seq(A())}},
		{"c2-t1", 2, 1, []SeqSpec{Seq(A(Overrun)), Seq(A()), Seq(A()), Seq(A())}},
		{"c2-t2-two", 2, 2, []SeqSpec{Seq(A(Overrun)), Seq(A(Overrun)), Seq(A()), Seq(A())}},
		{"c1-retry", 1, 0, []SeqSpec{Seq(AR(1, Overrun, OK), A()), Seq(A())}},
		// the same with a plugin that ignores the cancellation and answers LATE, whenever the explorer lets it: nobody
		// must take that answer for the answer of a later call
		{"late-c1-tall", 1, -1, []SeqSpec{Seq(A(Late)), Seq(A(Late)), Seq(A())}},
		{"late-c1-retry", 1, 0, []SeqSpec{Seq(AR(1, Late, Late), A()), Seq(A())}},
	} {
		sc := &Scenario{Family: "F-seq", Name: "conc-overrun-" + v.name, TimeoutRace: true, MaxTicks: 10,
			Plans: []PlanSpec{{Blocks: []BlockSpec{{Seqs: v.seqs, Conc: v.conc, Tol: v.tol}, {Seqs: okSeqs(2, 1), Conc: 1}}}}}
		out = append(out, sc)
	}
	// two plans on one workstream
	out = append(out, &Scenario{Family: "F-seq", Name: "conc-2plans",
		Plans: []PlanSpec{
			{Blocks: []BlockSpec{{Seqs: okSeqs(3, 1), Conc: 2}}},
			{Blocks: []BlockSpec{{Seqs: okSeqs(2, 1), Conc: 1}}},
		}})
	return out
}

// wakeTwins returns, for each scenario, a twin explored under the second internal scheduling policy (WakeFirst).
func wakeTwins(scs []*Scenario) []*Scenario {
	var out []*Scenario
	for _, sc := range scs {
		if sc.WakeFirst {
			continue
		}
		tw := cloneScenario(sc)
		tw.Name += "+wf"
		tw.WakeFirst = true
		out = append(out, tw)
	}
	return out
}

func cloneScenario(sc *Scenario) *Scenario {
	b := sc.JSON()
	var out Scenario
	if err := jsonUnmarshal([]byte(b), &out); err != nil {
		panic(err)
	}
	return &out
}

// FamilySeq: no checks; 1-2 blocks (second block fixed 1x1), 1-3 sequences x 1-2 actions, c in {1,2,3},
// t in {-1,0,1}, at most one failing action (every position).
func FamilySeq(tier string) []*Scenario {
	var out []*Scenario
	for nb := 1; nb <= 2; nb++ {
		for nseq := 1; nseq <= 3; nseq++ {
			for nact := 1; nact <= 2; nact++ {
				for _, conc := range []int{1, 2, 3} {
					if conc > nseq && conc > 1 {
						continue
					}
					for _, tol := range []int{-1, 0, 1} {
						if tol == 1 && nseq == 1 {
							continue
						}
						for fail := -1; fail < nseq*nact; fail++ {
							if fail >= 0 && nact == 2 && fail%2 == 1 && nseq == 3 && tier != "thorough" {
								continue // quick: second-action failures only for <=2 sequences
							}
							seqs := okSeqs(nseq, nact)
							if fail >= 0 {
								seqs[fail/nact].Actions[fail%nact] = A(Perm)
							}
							ps := PlanSpec{Blocks: []BlockSpec{{Seqs: seqs, Conc: conc, Tol: tol}}}
							if nb == 2 {
								ps.Blocks = append(ps.Blocks, BlockSpec{Seqs: okSeqs(1, 1), Conc: 1})
							}
							out = append(out, &Scenario{Family: "F-seq", Name: fmt.Sprintf("seq-b%d-n%d-a%d-c%d-t%d-f%d", nb, nseq, nact, conc, tol, fail), Plans: []PlanSpec{ps}})
						}
					}
				}
			}
		}
	}
	return out
}

var groupNames = []string{"by", "pre", "cont", "post", "def"}

func setGroup(by, pre, cont, post, def **ChecksSpec, g string, c *ChecksSpec) {
	switch g {
	case "by":
		*by = c
	case "pre":
		*pre = c
	case "cont":
		*cont = c
	case "post":
		*post = c
	case "def":
		*def = c
	}
}

// FamilyChk: one block x 2 sequences x 1 action (c=2); every subset of the five check groups at plan level
// (block level empty) and at block level (plan level empty); every pass/fail assignment to the present groups with
// at most two failing groups (quick) or any number (thorough).
// level2 adds, for every single group, the combination "group at plan level and the same group at block level".
func FamilyChk(tier string) []*Scenario {
	var out []*Scenario
	nact := 1
	for level := 0; level < 2; level++ {
		for mask := 1; mask < 32; mask++ {
			var present []string
			for gi, g := range groupNames {
				if mask&(1<<gi) != 0 {
					present = append(present, g)
				}
			}
			maxFail := 2
			if tier == "thorough" {
				maxFail = 5
			}
			for fm := 0; fm < 1<<len(present); fm++ {
				nf := 0
				var failNames []string
				for gi := range present {
					if fm&(1<<gi) != 0 {
						nf++
						failNames = append(failNames, present[gi])
					}
				}
				if nf > maxFail {
					continue
				}
				ps := PlanSpec{Blocks: []BlockSpec{{Seqs: okSeqs(2, 1), Conc: 2}, {Seqs: okSeqs(1, 1), Conc: 1}}}
				b := &ps.Blocks[0]
				for gi, g := range present {
					var acts []ActSpec
					for a := 0; a < nact; a++ {
						acts = append(acts, A())
					}
					if fm&(1<<gi) != 0 {
						acts[0] = A(Perm)
					}
					c := &ChecksSpec{Actions: acts}
					if level == 0 {
						setGroup(&ps.Bypass, &ps.Pre, &ps.Cont, &ps.Post, &ps.Def, g, c)
					} else {
						setGroup(&b.Bypass, &b.Pre, &b.Cont, &b.Post, &b.Def, g, c)
					}
				}
				lv := "plan"
				if level == 1 {
					lv = "block"
				}
				failName := "none"
				if nf > 0 {
					failName = strings.Join(failNames, "+")
				}
				out = append(out, &Scenario{Family: "F-chk", Name: fmt.Sprintf("chk-%s-m%02d-f%s", lv, mask, failName), Plans: []PlanSpec{ps}})
				if nf == 1 {
					// the same failure reported as "a (partial) response together with a permanent error": still a failure
					tw := cloneScenario(out[len(out)-1])
					tw.Name += "-Bp"
					tp := &tw.Plans[0]
					for _, c := range []*ChecksSpec{tp.Bypass, tp.Pre, tp.Cont, tp.Post, tp.Def, tp.Blocks[0].Bypass, tp.Blocks[0].Pre, tp.Blocks[0].Cont, tp.Blocks[0].Post, tp.Blocks[0].Def} {
						if c != nil && len(c.Actions) > 0 && len(c.Actions[0].Script) > 0 && c.Actions[0].Script[0] == Perm {
							c.Actions[0].Script[0] = RespPerm
						}
					}
					out = append(out, tw)
				}
			}
		}
	}
	// both levels: all five groups at both levels, each single failing group at each level, and two actions per group.
	for level := 0; level < 2; level++ {
		for fi := -1; fi < 5; fi++ {
			if fi == -1 && level == 1 {
				continue
			}
			ps := PlanSpec{Blocks: []BlockSpec{{Seqs: okSeqs(2, 1), Conc: 2}, {Seqs: okSeqs(1, 1), Conc: 1}}}
			b := &ps.Blocks[0]
			for gi, g := range groupNames {
				pc := &ChecksSpec{Actions: []ActSpec{A(), A()}}
				bc := &ChecksSpec{Actions: []ActSpec{A(), A()}}
				if gi == fi {
					if level == 0 {
						pc.Actions[1] = A(Perm)
					} else {
						bc.Actions[1] = A(Perm)
					}
				}
				setGroup(&ps.Bypass, &ps.Pre, &ps.Cont, &ps.Post, &ps.Def, g, pc)
				setGroup(&b.Bypass, &b.Pre, &b.Cont, &b.Post, &b.Def, g, bc)
			}
			// a passing bypass would skip everything: make the bypass groups fail unless they are the subject
			if fi != 0 {
				ps.Bypass.Actions[0] = A(Perm)
				b.Bypass.Actions[0] = A(Perm)
			} else if level == 0 {
				b.Bypass.Actions[0] = A(Perm)
			} else {
				ps.Bypass.Actions[0] = A(Perm)
			}
			out = append(out, &Scenario{Family: "F-chk", Name: fmt.Sprintf("chk-both-l%d-f%d", level, fi), Plans: []PlanSpec{ps}})
		}
	}
	// pairs: a single group with two actions of which one fails, both orders, on an otherwise minimal plan: small enough
	// for every order of the two parallel check actions against everything that follows (a group must not be left
	// while one of its actions is still executing)
	for level := 0; level < 2; level++ {
		for _, g := range groupNames {
			for failIdx := 0; failIdx < 2; failIdx++ {
				ps := PlanSpec{Blocks: []BlockSpec{{Seqs: okSeqs(1, 1), Conc: 1}}}
				acts := []ActSpec{A(), A()}
				acts[failIdx] = A(Perm)
				c := &ChecksSpec{Actions: acts}
				lv := "plan"
				if level == 0 {
					setGroup(&ps.Bypass, &ps.Pre, &ps.Cont, &ps.Post, &ps.Def, g, c)
				} else {
					lv = "block"
					b := &ps.Blocks[0]
					setGroup(&b.Bypass, &b.Pre, &b.Cont, &b.Post, &b.Def, g, c)
				}
				out = append(out, &Scenario{Family: "F-chk", Name: fmt.Sprintf("chk-pair-%s-%s-f%d", lv, g, failIdx), Plans: []PlanSpec{ps}})
			}
		}
	}
	return out
}

// FamilySharp: hand-picked scenarios, one per shortcut visible in the engine code.
func FamilySharp(tier string) []*Scenario {
	var out []*Scenario
	add := func(name string, ps ...PlanSpec) *Scenario {
		sc := &Scenario{Family: "F-sharp", Name: "sharp-" + name, Plans: ps}
		out = append(out, sc)
		return sc
	}
	// launch loop leaves when the tolerance is exceeded while another sequence is still in flight
	add("launch-tol-def", PlanSpec{Def: Chk(A()), Blocks: []BlockSpec{{Def: Chk(A()), Post: Chk(A()), Conc: 2, Tol: 0,
		Seqs: []SeqSpec{Seq(A(Perm)), Seq(A(), A()), Seq(A()), Seq(A())}}, {Seqs: okSeqs(1, 1)}}})
	add("launch-tol1-def", PlanSpec{Post: Chk(A()), Def: Chk(A()), Blocks: []BlockSpec{{Def: Chk(A()), Conc: 2, Tol: 1,
		Seqs: []SeqSpec{Seq(A(Perm)), Seq(A(Perm)), Seq(A(), A()), Seq(A()), Seq(A())}}}})
	add("launch-tol-c3", PlanSpec{Def: Chk(A()), Blocks: []BlockSpec{{Def: Chk(A()), Conc: 3, Tol: 0,
		Seqs: []SeqSpec{Seq(A()), Seq(A(Perm)), Seq(A(), A()), Seq(A()), Seq(A())}}}})
	// last sequence fails (re-check after the wait)
	add("last-seq-fails", PlanSpec{Blocks: []BlockSpec{{Def: Chk(A()), Post: Chk(A()), Conc: 2, Tol: 0,
		Seqs: []SeqSpec{Seq(A()), Seq(A()), Seq(A(Perm))}}, {Seqs: okSeqs(1, 1)}}})
	// all fail, unlimited tolerance
	add("all-fail-tol-unlimited", PlanSpec{Blocks: []BlockSpec{{Post: Chk(A()), Conc: 2, Tol: -1,
		Seqs: []SeqSpec{Seq(A(Perm)), Seq(A(Perm)), Seq(A(Perm))}}, {Seqs: okSeqs(1, 1)}}})
	// bypassed first block, second block runs
	add("bypassed-first-block", PlanSpec{Blocks: []BlockSpec{{Bypass: Chk(A()), Pre: Chk(A()), Def: Chk(A()), Seqs: okSeqs(2, 1), Conc: 2},
		{Pre: Chk(A()), Seqs: okSeqs(2, 1), Conc: 2}}})
	// bypassed plan
	add("bypassed-plan", PlanSpec{Bypass: Chk(A(), A()), Pre: Chk(A()), Cont: Chk(A()), Post: Chk(A()), Def: Chk(A()), Blocks: []BlockSpec{{Seqs: okSeqs(2, 1), Conc: 2}}})
	// everything at once, nothing failing
	all := PlanSpec{Bypass: Chk(A(Perm)), Pre: Chk(A()), Cont: Chk(A()), Post: Chk(A()), Def: Chk(A()),
		Blocks: []BlockSpec{{Bypass: Chk(A(Perm)), Pre: Chk(A()), Cont: Chk(A()), Post: Chk(A()), Def: Chk(A()), Seqs: okSeqs(2, 2), Conc: 2},
			{Pre: Chk(A()), Post: Chk(A()), Seqs: okSeqs(1, 1)}}}
	add("all-groups-ok", all)
	// retries inside a sequence next to a failing sequence
	add("retry-next-to-failure", PlanSpec{Blocks: []BlockSpec{{Def: Chk(A()), Conc: 2, Tol: 0,
		Seqs: []SeqSpec{Seq(AR(2, Trans, OK), A()), Seq(A(Perm)), Seq(A())}}}})
	// single block vs two block with failing second block
	add("second-block-fails", PlanSpec{Post: Chk(A()), Def: Chk(A()), Blocks: []BlockSpec{{Seqs: okSeqs(2, 1), Conc: 2},
		{Post: Chk(A()), Def: Chk(A()), Seqs: []SeqSpec{Seq(A(), A(Perm)), Seq(A())}, Conc: 1, Tol: 0}, {Seqs: okSeqs(1, 1)}}})
	// the context given to Start ends right after Start returned: the execution must not notice
	for _, v := range []struct {
		name string
		ps   PlanSpec
	}{
		{"all-groups-ok", all},
		{"block-pre-fails", PlanSpec{Pre: Chk(A()), Def: Chk(A()), Blocks: []BlockSpec{{Pre: Chk(A(Perm)), Def: Chk(A()), Seqs: okSeqs(1, 2)}, {Seqs: okSeqs(1, 1)}}}},
		{"plan-pre-ok-seq-fails", PlanSpec{Pre: Chk(A(), A()), Post: Chk(A()), Blocks: []BlockSpec{{Post: Chk(A()), Seqs: []SeqSpec{Seq(A(), A(Perm)), Seq(A())}, Conc: 2, Tol: 0}, {Seqs: okSeqs(1, 1)}}}},
		{"retry", PlanSpec{Pre: Chk(AR(1, Trans, OK)), Blocks: []BlockSpec{{Seqs: []SeqSpec{Seq(AR(1, Trans, OK), A())}}}}},
	} {
		sc := add("startctx-"+v.name, v.ps)
		sc.CancelStartCtx = true
		sc.MaxTicks = 8
	}
	// post-check failing with deferred present at both levels
	add("post-fails-def-present", PlanSpec{Post: Chk(A()), Def: Chk(A()), Blocks: []BlockSpec{{Post: Chk(A(), A(Perm)), Def: Chk(A()), Seqs: okSeqs(2, 1), Conc: 2}, {Seqs: okSeqs(1, 1)}}})
	return out
}
