package mc

import (
	"context"
	"fmt"
	"strings"

	"github.com/element-of-surprise/coercion/plugins/registry"
	"github.com/element-of-surprise/coercion/workflow"
	"github.com/element-of-surprise/coercion/workflow/storage"
	"github.com/element-of-surprise/coercion/workflow/storage/sqlite"
	bctx "github.com/gostdlib/base/context"
)

// C14: Create is all-or-nothing and unique; Delete removes exactly one plan.

// BadReq cannot be serialised (a channel has no JSON form).
type BadReq struct {
	Arg string
	C   chan int
}

type badPlug struct{ simplePlug }

func (p *badPlug) ValidateReq(req any) error { return nil }
func (p *badPlug) Request() any              { return BadReq{} }

func createRegistry() *registry.Register {
	reg := storageRegistry()
	reg.MustRegister(&badPlug{simplePlug{name: "bad"}})
	reg.MustRegister(&badPlug{simplePlug{name: "badchk", check: true}})
	return reg
}

func tableCounts(ctx context.Context, v storage.Vault) (map[string]int, bool) {
	sv, ok := v.(*sqlite.Vault)
	if !ok {
		return nil, false
	}
	c, err := rowCounts(ctx, sv)
	if err != nil {
		return nil, false
	}
	return c, true
}

// objectCounts: how many rows a plan occupies per table.
func objectCounts(p *workflow.Plan) map[string]int {
	out := map[string]int{}
	for _, o := range listObjects(p) {
		switch o.kind {
		case "plan":
			out["plans"]++
		case "block":
			out["blocks"]++
		case "checks":
			out["checks"]++
		case "seq":
			out["sequences"]++
		case "action":
			out["actions"]++
		}
	}
	return out
}

// createFaultCase: the action at position Pos (walking order among actions) carries a request that cannot be encoded.
type createFaultCase struct {
	Vault string     `json:"vault"`
	Shape storeShape `json:"shape"`
	Pos   int        `json:"pos"`
}

func (c createFaultCase) String() string {
	return fmt.Sprintf("%s %s unencodable request at action #%d", c.Vault, c.Shape, c.Pos)
}

func checkCreateFault(c createFaultCase) (rule, sig, msg string) {
	defer func() {
		if r := recover(); r != nil {
			rule, sig, msg = "create-panicked", c.Vault, fmt.Sprintf("%s: panic: %v", c, r)
		}
	}()
	ctx := bctx.Background()
	reg := createRegistry()
	f := factoryByName(c.Vault)
	v, err := f.new(ctx, reg)
	if err != nil {
		return "harness", "vault", err.Error()
	}
	defer v.Close(ctx)
	// an unrelated plan that must stay untouched
	other := storeShape{Blocks: 1, Seqs: 1, Actions: 1, Checks: 2, Variant: 1}
	op := other.build()
	oref := refCopy(other, op)
	if err := v.Create(ctx, op); err != nil {
		return "create-failed", c.Vault, err.Error()
	}
	before, haveCounts := tableCounts(ctx, v)

	p := c.Shape.build()
	var target *workflow.Action
	var where string
	n := 0
	for _, o := range listObjects(p) {
		if a, ok := o.obj.(*workflow.Action); ok {
			if n == c.Pos {
				target = a
				where = "sequence-action"
				if o.inChecks {
					where = "check-action"
				}
			}
			n++
		}
	}
	if target == nil {
		return "", "", ""
	}
	goodReq, goodPlugin := target.Req, target.Plugin
	target.Req = BadReq{Arg: "x", C: make(chan int)}
	target.Plugin = "bad"
	if where == "check-action" {
		target.Plugin = "badchk"
	}
	cerr := v.Create(ctx, p)
	if cerr == nil {
		got, rerr := v.Read(ctx, p.ID)
		detail := "the plan cannot be read back"
		if rerr == nil {
			detail = fmt.Sprintf("the stored plan has %d objects, the submitted one %d", len(listObjects(got)), len(listObjects(p)))
		}
		return "create-succeeded-with-unencodable-object", c.Vault + ":" + where, fmt.Sprintf("%s: Create returned nil although the request of a %s cannot be encoded; %s", c, where, detail)
	}
	if haveCounts {
		after, _ := tableCounts(ctx, v)
		for t, nrows := range before {
			if after[t] != nrows {
				return "failed-create-left-rows", c.Vault + ":" + where, fmt.Sprintf("%s: Create failed (%v) but table %s went from %d to %d rows", c, cerr, t, nrows, after[t])
			}
		}
	}
	if pl, err := v.Read(ctx, p.ID); err == nil && pl != nil {
		return "failed-create-left-readable-plan", c.Vault + ":" + where, fmt.Sprintf("%s: Create failed (%v) but the plan can be read", c, cerr)
	}
	// the repaired plan with the same ids must now be creatable (an API-level orphan detector)
	target.Req, target.Plugin = goodReq, goodPlugin
	if err := v.Create(ctx, p); err != nil {
		return "failed-create-left-orphans", c.Vault + ":" + where, fmt.Sprintf("%s: after the failed Create the repaired plan with the same ids cannot be created: %v", c, err)
	}
	got, err := v.Read(ctx, p.ID)
	if err != nil {
		return "read-failed", c.Vault, err.Error()
	}
	ref := refCopy(c.Shape, p)
	normalizeForVault(c.Vault, got, ref)
	if field, m := planDiff(got, ref); field != "" {
		return "read-differs-from-written", c.Vault + ":" + field, fmt.Sprintf("%s: after the repaired Create: %s", c, m)
	}
	got, err = v.Read(ctx, op.ID)
	if err != nil {
		return "other-plan-damaged", c.Vault, fmt.Sprintf("%s: the unrelated plan cannot be read any more: %v", c, err)
	}
	normalizeForVault(c.Vault, got, oref)
	if field, m := planDiff(got, oref); field != "" {
		return "other-plan-damaged", c.Vault + ":" + field, fmt.Sprintf("%s: the unrelated plan changed: %s", c, m)
	}
	return "", "", ""
}

// crudCase: a sequence of operations on three plans. Op = kind*3 + plan; kinds: 0 create 1 delete 2 read.
type crudCase struct {
	Vault string `json:"vault"`
	Ops   []int  `json:"ops"`
}

var crudShapes = []storeShape{
	{Blocks: 1, Seqs: 1, Actions: 1, Checks: 0, Variant: 0},
	{Blocks: 2, Seqs: 2, Actions: 1, Checks: 11, Variant: 1},
	{Blocks: 1, Seqs: 2, Actions: 2, Checks: 5, Variant: 2},
}

func (c crudCase) String() string {
	var parts []string
	for _, op := range c.Ops {
		parts = append(parts, fmt.Sprintf("%s(p%d)", []string{"Create", "Delete", "Read"}[op/3], op%3))
	}
	return c.Vault + " " + strings.Join(parts, ";")
}

func checkCrud(c crudCase) (rule, sig, msg string) {
	defer func() {
		if r := recover(); r != nil {
			rule, sig, msg = "crud-panicked", c.Vault, fmt.Sprintf("%s: panic: %v", c, r)
		}
	}()
	ctx := bctx.Background()
	reg := createRegistry()
	f := factoryByName(c.Vault)
	v, err := f.new(ctx, reg)
	if err != nil {
		return "harness", "vault", err.Error()
	}
	defer dropVault(ctx, v)
	plans := make([]*workflow.Plan, 3)
	refs := make([]*workflow.Plan, 3)
	for i, sh := range crudShapes {
		plans[i] = sh.build()
		refs[i] = refCopy(sh, plans[i])
	}
	live := [3]bool{}
	verify := func(step int) (string, string, string) {
		for i := range plans {
			got, err := v.Read(ctx, plans[i].ID)
			switch {
			case live[i] && err != nil:
				return "live-plan-unreadable", c.Vault, fmt.Sprintf("%s: after step %d plan p%d cannot be read: %v", c, step, i, err)
			case !live[i] && err == nil:
				return "absent-plan-readable", c.Vault, fmt.Sprintf("%s: after step %d plan p%d, which does not exist, can be read (nil=%v)", c, step, i, got == nil)
			case live[i]:
				normalizeForVault(c.Vault, got, refs[i])
				if field, m := planDiff(got, refs[i]); field != "" {
					return "plan-altered-by-other-operation", c.Vault + ":" + field, fmt.Sprintf("%s: after step %d plan p%d differs: %s", c, step, i, m)
				}
			}
			ex, err := v.Exists(ctx, plans[i].ID)
			if err == nil && ex != live[i] {
				return "exists-wrong", fmt.Sprintf("%s:want-%v", c.Vault, live[i]), fmt.Sprintf("%s: after step %d Exists(p%d) = %v", c, step, i, ex)
			}
		}
		if counts, ok := tableCounts(ctx, v); ok {
			want := map[string]int{}
			for i := range plans {
				if live[i] {
					for t, n := range objectCounts(plans[i]) {
						want[t] += n
					}
				}
			}
			for _, t := range sqliteTables {
				if counts[t] != want[t] {
					return "row-counts-differ-from-live-plans", c.Vault + ":" + t, fmt.Sprintf("%s: after step %d table %s holds %d rows, the live plans have %d objects there", c, step, t, counts[t], want[t])
				}
			}
		}
		return "", "", ""
	}
	for step, op := range c.Ops {
		kind, i := op/3, op%3
		switch kind {
		case 0:
			// a second Create hands in an altered copy with the same ids: it must fail and change nothing
			p := plans[i]
			if live[i] {
				p = refCopy(crudShapes[i], plans[i])
				p.Name = "impostor"
				for _, o := range listObjects(p) {
					if sp, ok := o.obj.(interface{ SetPlanID(id [16]byte) }); ok {
						_ = sp
					}
				}
			}
			err := v.Create(ctx, p)
			switch {
			case live[i] && err == nil:
				return "duplicate-create-accepted", c.Vault, fmt.Sprintf("%s: step %d created p%d a second time without error", c, step, i)
			case !live[i] && err != nil:
				return "create-failed", c.Vault, fmt.Sprintf("%s: step %d: %v", c, step, err)
			}
			live[i] = true
		case 1:
			err := v.Delete(ctx, plans[i].ID)
			if live[i] && err != nil {
				return "delete-failed", c.Vault, fmt.Sprintf("%s: step %d: %v", c, step, err)
			}
			if !live[i] && err == nil {
				return "delete-of-absent-plan-accepted", c.Vault, fmt.Sprintf("%s: step %d deleted p%d, which does not exist, without error", c, step, i)
			}
			live[i] = false
		case 2:
			// covered by verify
		}
		if r, s, m := verify(step); r != "" {
			return r, s, m
		}
	}
	return "", "", ""
}

func enumC14(env *EnumEnv, it *WorkItem) *EnumResult {
	res := &EnumResult{Exhaustive: true}
	reported := map[string]bool{}
	idx := 0
	report := func(rule, sig, msg string, input any) {
		if rule == "" {
			return
		}
		k := rule + "|" + sig
		if !reported[k] {
			reported[k] = true
			res.Found = append(res.Found, &EnumFound{V: Violation{Property: "C14", Rule: rule, Signature: sig, Msg: msg}, Input: input})
		}
	}
	depth := 4
	if env.Tier == "thorough" {
		depth = 6
	}
	phase, expired := "", false
	over := func() bool {
		if expired || env.Expired() {
			if !expired {
				expired = true
				res.Exhaustive = false
				res.Notes = append(res.Notes, fmt.Sprintf("budget reached in phase %q after %d evaluations of this shard; everything before that phase was covered completely", phase, res.Evaluations))
			}
			return true
		}
		return false
	}
	for _, f := range vaultFactories() {
		// (i) an unencodable request at every action position of every shape
		phase = f.name + ": unencodable requests"
		for _, sh := range storeShapes("quick") {
			if sh.Variant != 0 && env.Tier != "thorough" {
				continue
			}
			nact := 0
			for _, o := range listObjects(sh.build()) {
				if o.kind == "action" {
					nact++
				}
			}
			for pos := 0; pos < nact; pos++ {
				idx++
				if idx%it.NShards != it.Shard || over() {
					continue
				}
				c := createFaultCase{Vault: f.name, Shape: sh, Pos: pos}
				res.Evaluations++
				res.Distinct++
				r, s, m := checkCreateFault(c)
				report(r, s, m, map[string]any{"fault": c})
				if len(res.Samples) < 1 && pos == 3 {
					res.Samples = append(res.Samples, c.String())
				}
			}
		}
	}
	// (iii) all sequences over {Create, Delete, Read} x 3 plans, shortest first (a sequence ending in a Read is covered
	// by its extensions except at the last length)
	for L := 1; L <= depth; L++ {
		for _, f := range append(vaultFactories(), sqliteFileFactory) {
			phase = fmt.Sprintf("%s: create/delete/read sequences of length %d", f.name, L)
			var rec func(prefix []int)
			rec = func(prefix []int) {
				if len(prefix) == L {
					idx++
					if idx%it.NShards == it.Shard && (L == depth || prefix[len(prefix)-1]/3 != 2) && !over() {
						c := crudCase{Vault: f.name, Ops: append([]int{}, prefix...)}
						res.Evaluations++
						if len(prefix) > 1 {
							res.Distinct++
						}
						r, s, m := checkCrud(c)
						report(r, s, m, map[string]any{"crud": c})
						if len(res.Samples) < 3 && len(prefix) == depth && idx%911 == 0 {
							res.Samples = append(res.Samples, c.String())
						}
					}
					return
				}
				for op := 0; op < 9; op++ {
					if expired {
						return
					}
					rec(append(prefix, op))
				}
			}
			rec(nil)
		}
	}
	return res
}

func init() {
	register(&PropDef{
		ID:    "C14",
		Level: "fault_enumeration",
		Rule: "(i) a request that cannot be serialised is placed at EVERY action position (check and sequence actions) of every grammar shape: Create must fail, leave the row counts of all five tables unchanged (sqlite), the plan unreadable, an unrelated plan untouched, and the repaired plan with the SAME ids must then be creatable and read back equal (API-level orphan detector); " +
			"(ii) process kill at every write-class system call of a real Submit, and of the Delete of the same plan after it, on a file-backed store (strace fault injection, see the evidence notes); (iii) ALL sequences up to depth 4 (6) over {Create, Create again with an altered copy, Delete, Read} x 3 plans of different shapes against a reference set of live plans: duplicate create fails and changes nothing, " +
			"delete removes exactly that plan, per-table row counts equal the objects of the live plans; both vaults where the CosmosDB fake is available, and sqlite once more on a FILE (WAL, the connection pool the store uses for files); distinct_nontrivial = fault positions plus operation sequences longer than one",
		Assumptions: []string{"process death, not power loss: no torn pages", "CosmosDB over the package's fake only (single client calls are not cut there)"},
		Items:       func(tier string) []WorkItem { return append(shardItems("C14", 16), killItems(tier)...) },
		Enum:        enumC14dispatch,
		ReplayInput: func(env *EnumEnv, raw []byte) []*Violation {
			var in struct {
				Fault *createFaultCase `json:"fault"`
				Crud  *crudCase        `json:"crud"`
				Kill  *int             `json:"kill"`
				Call  string           `json:"call"`
			}
			if err := jsonUnmarshal(raw, &in); err != nil {
				return []*Violation{{Property: "C14", Rule: "bad-input", Msg: err.Error()}}
			}
			if in.Kill != nil {
				return replayKill("C14", *in.Kill, in.Call)
			}
			var r, s, m string
			switch {
			case in.Fault != nil:
				r, s, m = checkCreateFault(*in.Fault)
			case in.Crud != nil:
				r, s, m = checkCrud(*in.Crud)
			}
			if r != "" {
				return []*Violation{{Property: "C14", Rule: r, Signature: s, Msg: m}}
			}
			return nil
		},
	})
}

// killItems / enumC14dispatch: part (ii) lives in enum_kill.go.
func enumC14dispatch(env *EnumEnv, it *WorkItem) *EnumResult {
	if it.Enum == "kill" {
		return enumKill(env, it)
	}
	return enumC14(env, it)
}
