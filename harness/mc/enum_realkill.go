package mc

import (
	"bufio"
	"context"
	"fmt"
	"os"
	"os/exec"
	"path/filepath"
	"sort"
	"strconv"
	"strings"
	"syscall"
	"time"

	coercion "github.com/element-of-surprise/coercion"
	"github.com/element-of-surprise/coercion/plugins"
	"github.com/element-of-surprise/coercion/plugins/registry"
	"github.com/element-of-surprise/coercion/workflow"
	"github.com/element-of-surprise/coercion/workflow/storage/sqlite"
	bctx "github.com/gostdlib/base/context"
	"github.com/gostdlib/base/retry/exponential"
)

// Cross-validation of the crash model of C09/C10 against a REAL process kill on a FILE-backed store: a child process
// runs a plan to the end under strace, which turns the k-th write-class system call (of whichever thread gets there
// first) into SIGKILL, for every k up to the largest per-thread count of a traced dry run; the durable state is then
// read, a second child process recovers the store, and the same predicates as in the bubble are evaluated.

// filePlug logs every invocation with one O_APPEND write (which survives a process kill) and answers at once.
type filePlug struct {
	name  string
	check bool
	log   string
}

func (p *filePlug) Name() string { return p.name }
func (p *filePlug) Execute(ctx context.Context, req any) (any, *plugins.Error) {
	r, _ := req.(Req)
	f, err := os.OpenFile(p.log, os.O_APPEND|os.O_CREATE|os.O_WRONLY, 0o644)
	if err == nil {
		f.WriteString(r.Path + "\n")
		f.Close()
	}
	if strings.Contains(r.Path, "FAIL") {
		return nil, &plugins.Error{Message: "scripted failure of " + r.Path, Permanent: true}
	}
	return Resp{Path: r.Path}, nil
}
func (p *filePlug) ValidateReq(req any) error {
	if _, ok := req.(Req); !ok {
		return fmt.Errorf("bad request type %T", req)
	}
	return nil
}
func (p *filePlug) Request() any  { return Req{} }
func (p *filePlug) Response() any { return Resp{} }
func (p *filePlug) IsCheck() bool { return p.check }
func (p *filePlug) Init() error   { return nil }
func (p *filePlug) RetryPolicy() exponential.Policy {
	return exponential.Policy{InitialInterval: time.Second, Multiplier: 2, MaxInterval: time.Minute}
}

func fileRegistry(log string) *registry.Register {
	reg := registry.New()
	reg.MustRegister(&filePlug{name: PlugAct, log: log})
	reg.MustRegister(&filePlug{name: PlugChk, check: true, log: log})
	return reg
}

// realKillScenarios: small plans (every write costs a process start); an action whose path contains FAIL fails.
func realKillScenarios(tier string) []*Scenario {
	ok := &Scenario{Name: "realkill-ok", Plans: []PlanSpec{{Pre: Chk(A()), Def: Chk(A()), Blocks: []BlockSpec{{Seqs: []SeqSpec{Seq(A(), A()), Seq(A())}, Conc: 2}}}}}
	if tier != "thorough" {
		return []*Scenario{ok}
	}
	fail := &Scenario{Name: "realkill-fail", Plans: []PlanSpec{{Def: Chk(A()), Blocks: []BlockSpec{{Def: Chk(A()), Seqs: []SeqSpec{Seq(A(Perm)), Seq(A())}, Conc: 1, Tol: 0}, {Seqs: okSeqs(1, 1)}}}}}
	two := &Scenario{Name: "realkill-two-blocks", Plans: []PlanSpec{{Post: Chk(A()), Blocks: []BlockSpec{{Post: Chk(A()), Seqs: okSeqs(2, 1), Conc: 1}, {Seqs: okSeqs(1, 2)}}}}}
	return []*Scenario{ok, fail, two}
}

// buildFilePlan builds the plan of a scenario for the file plugins: failing actions get FAIL in their path name.
func buildFilePlan(sc *Scenario) *workflow.Plan {
	p := BuildPlan(&sc.Plans[0], 0, func(oi ObjInfo, obj any) {
		if a, ok := obj.(*workflow.Action); ok {
			a.Timeout = 30 * time.Second
			if oi.Act != nil && len(oi.Act.Script) > 0 && oi.Act.Script[0] == Perm {
				a.Req = Req{Path: oi.Path + "#FAIL"}
			}
		}
	})
	return p
}

// runChildMain: role runchild (submit, start, wait) or recoverchild (recover, wait for every plan).
func runChildMain(role, dir, scenarioJSON string) {
	ctx := bctx.Background()
	var sc Scenario
	if err := jsonUnmarshal([]byte(scenarioJSON), &sc); err != nil {
		fmt.Println("CHILD bad scenario:", err)
		os.Exit(3)
	}
	logName := "invocations-run.log"
	if role == "recoverchild" {
		logName = "invocations-recover.log"
	}
	reg := fileRegistry(filepath.Join(dir, logName))
	v, err := sqlite.New(ctx, dir, reg)
	if err != nil {
		fmt.Println("CHILD open failed:", err)
		os.Exit(3)
	}
	ws, err := coercion.New(ctx, reg, v)
	if err != nil {
		fmt.Println("CHILD workstream failed:", err)
		os.Exit(3)
	}
	if role == "runchild" {
		id, err := ws.Submit(ctx, buildFilePlan(&sc))
		if err != nil {
			fmt.Println("CHILD submit failed:", err)
			os.Exit(3)
		}
		os.WriteFile(filepath.Join(dir, "plan-id"), []byte(id.String()), 0o644)
		if err := ws.Start(ctx, id); err != nil {
			fmt.Println("CHILD start failed:", err)
			os.Exit(3)
		}
		if _, err := ws.Wait(ctx, id); err != nil {
			fmt.Println("CHILD wait failed:", err)
			os.Exit(3)
		}
		os.WriteFile(filepath.Join(dir, "run-finished"), []byte("x"), 0o644)
		v.Close(ctx)
		return
	}
	// recovery: wait for everything that was resumed
	ch, err := v.List(ctx, 0)
	if err != nil {
		fmt.Println("CHILD list failed:", err)
		os.Exit(3)
	}
	for s := range ch {
		if s.Err != nil {
			continue
		}
		wctx, cancel := context.WithTimeout(ctx, 300*time.Second)
		_, err := ws.Wait(wctx, s.Result.ID)
		cancel()
		if err != nil {
			fmt.Println("CHILD recovery wait failed:", err)
			os.Exit(4)
		}
	}
	os.WriteFile(filepath.Join(dir, "recovery-finished"), []byte("x"), 0o644)
	v.Close(ctx)
}

func childCmd(role, dir string, sc *Scenario, straceArgs ...string) *exec.Cmd {
	args := []string{}
	bin := os.Args[0]
	childArgs := []string{"-test.run=^TestRunChild$", "-test.timeout=900s", "-mc.role=" + role, "-mc.killdir=" + dir, "-mc.childscenario=" + sc.JSON()}
	var cmd *exec.Cmd
	if len(straceArgs) > 0 {
		args = append([]string{"-f"}, straceArgs...)
		args = append(args, bin)
		args = append(args, childArgs...)
		cmd = exec.Command("strace", args...)
	} else {
		cmd = exec.Command(bin, childArgs...)
	}
	cmd.Env = append(os.Environ(), "GOMAXPROCS=1")
	return cmd
}

func readLines(path string) []string {
	b, err := os.ReadFile(path)
	if err != nil {
		return nil
	}
	var out []string
	for _, l := range strings.Split(strings.TrimSpace(string(b)), "\n") {
		if l != "" {
			out = append(out, strings.TrimSuffix(l, "#FAIL"))
		}
	}
	return out
}

// readStore opens the store read-only in spirit (no Workstream, hence no recovery) and returns the first plan.
func readStore(dir string) (*workflow.Plan, error) {
	ctx := bctx.Background()
	reg := fileRegistry(filepath.Join(dir, "unused.log"))
	v, err := sqlite.New(ctx, dir, reg)
	if err != nil {
		return nil, fmt.Errorf("re-open: %w", err)
	}
	defer v.Close(ctx)
	ch, err := v.List(ctx, 0)
	if err != nil {
		return nil, err
	}
	var plan *workflow.Plan
	n := 0
	for s := range ch {
		if s.Err != nil {
			return nil, s.Err
		}
		n++
		p, err := v.Read(ctx, s.Result.ID)
		if err != nil {
			return nil, err
		}
		plan = p
	}
	if n > 1 {
		return nil, fmt.Errorf("%d plans in the store after one Submit", n)
	}
	return plan, nil
}

func realKillItems(tier string) []WorkItem {
	var items []WorkItem
	for _, sc := range realKillScenarios(tier) {
		items = append(items, WorkItem{Prop: "C10", Kind: "enum", Enum: "realkill", Scenario: sc, Shard: 0, NShards: 1})
	}
	return items
}

func enumRealKill(env *EnumEnv, it *WorkItem) *EnumResult {
	res := &EnumResult{Exhaustive: true}
	sc := it.Scenario
	if _, err := exec.LookPath("strace"); err != nil {
		res.Exhaustive = false
		res.Notes = append(res.Notes, "real-kill cross-validation skipped: strace is not installed")
		return res
	}
	base := filepath.Join(*flagVerifDir, ".work", fmt.Sprintf("realkill-%d-%s", os.Getpid(), sc.Name))
	os.RemoveAll(base)
	os.MkdirAll(base, 0o755)
	defer os.RemoveAll(base)
	report := func(rule, sig, msg string, k int) {
		for _, f := range res.Found {
			if f.V.Rule == rule && f.V.Signature == sig {
				return
			}
		}
		res.Found = append(res.Found, &EnumFound{V: Violation{Property: "C10", Rule: rule, Signature: sig, Msg: fmt.Sprintf("%s, real kill at write-class system call %d: %s", sc.DSL(), k, msg)}, Input: map[string]any{"realkill": sc.Name, "k": k}})
	}
	// the monitors' view of the scenario (paths, specs) without running it in a bubble
	x := &Exec{Sc: sc, W: NewWorld(sc), Mem: map[string]any{}, apiDone: map[string]bool{}}
	x.buildPlan(0)

	// dry run: uninterrupted outcome and per-thread counts of write-class calls
	dry := filepath.Join(base, "dry")
	os.MkdirAll(dry, 0o755)
	trace := filepath.Join(base, "trace.txt")
	if out, err := childCmd("runchild", dry, sc, "-o", trace, "-e", "trace="+killSyscalls).CombinedOutput(); err != nil {
		res.Exhaustive = false
		res.Notes = append(res.Notes, fmt.Sprintf("real-kill cross-validation skipped: dry run failed (%v): %s", err, tail(string(out), 300)))
		return res
	}
	refPlan, err := readStore(dry)
	if err != nil || refPlan == nil || refPlan.State == nil || !terminal(refPlan.State.Status) {
		report("uninterrupted-run-not-terminal", "dry-run", fmt.Sprint(err), 0)
		return res
	}
	ref := fmt.Sprintf("%s/%s", refPlan.State.Status, refPlan.Reason)
	perThread := map[string]int{}
	f, _ := os.Open(trace)
	scn := bufio.NewScanner(f)
	scn.Buffer(make([]byte, 1<<20), 1<<20)
	for scn.Scan() {
		fields := strings.SplitN(scn.Text(), " ", 2)
		if len(fields) == 2 && !strings.HasPrefix(strings.TrimSpace(fields[1]), "+++") && !strings.HasPrefix(strings.TrimSpace(fields[1]), "---") {
			perThread[fields[0]]++
		}
	}
	f.Close()
	var counts []int
	total := 0
	for _, n := range perThread {
		counts = append(counts, n)
		total += n
	}
	sort.Sort(sort.Reverse(sort.IntSlice(counts)))
	if len(counts) == 0 {
		res.Exhaustive = false
		res.Notes = append(res.Notes, "real-kill cross-validation skipped: no write-class system calls traced")
		return res
	}
	maxK := counts[0]
	outcomes := map[string]int{}
	crashKinds := map[string]int{}
	for k := 1; k <= maxK; k++ {
		dir := filepath.Join(base, "k"+strconv.Itoa(k))
		os.MkdirAll(dir, 0o755)
		childCmd("runchild", dir, sc, "-o", "/dev/null", "-e", "trace="+killSyscalls, "-e", "inject="+killSyscalls+":signal=SIGKILL:when="+strconv.Itoa(k)).CombinedOutput()
		res.Evaluations++
		_, finished := os.Stat(filepath.Join(dir, "run-finished"))
		crash, err := readStore(dir)
		if err != nil {
			report("store-unreadable-after-kill", "sqlite:file", err.Error(), k)
			break
		}
		if crash == nil {
			crashKinds["no-plan"]++
			os.RemoveAll(dir)
			continue
		}
		cv := View(crash)
		planSt := cv.Objs["P0"].Status
		crashKinds[planSt.String()]++
		before := readLines(filepath.Join(dir, "invocations-run.log"))
		// every invocation must have been preceded by a durable Running: an invoked action is never stored NotStarted
		for _, path := range before {
			if o := cv.Objs[path]; o != nil && o.Status == workflow.NotStarted && o.Kind == "action" && x.W.Objs[path] != nil && x.W.Objs[path].Seq >= 0 {
				report("invoked-action-not-durably-running", "sqlite:file", fmt.Sprintf("%s was invoked before the kill but is stored NotStarted", path), k)
			}
		}
		// recovery in a fresh process
		out, rerr := childCmd("recoverchild", dir, sc).CombinedOutput()
		if rerr != nil {
			sig := "exit"
			if ee, ok := rerr.(*exec.ExitError); ok {
				if ws, ok := ee.Sys().(syscall.WaitStatus); ok && ws.Signaled() {
					sig = "signal"
				}
			}
			report("recovery-process-failed", sig, fmt.Sprintf("%v: %s", rerr, tail(string(out), 400)), k)
			break
		}
		after, err := readStore(dir)
		if err != nil || after == nil {
			report("store-unreadable-after-recovery", "sqlite:file", fmt.Sprint(err), k)
			break
		}
		av := View(after)
		if planSt == workflow.Running {
			// resumed: must be terminal and consistent, equal to the uninterrupted outcome
			h := &Hist{Calls: map[string][]*Call{}}
			for _, fd := range Consistency(x, h, av, 0) {
				report(fd[0], "after-real-kill", fd[1], k)
			}
			got := fmt.Sprintf("%s/%s", av.Objs["P0"].Status, av.Objs["P0"].Reason)
			if got != ref {
				report("outcome-differs-from-uninterrupted-run", "real-kill", fmt.Sprintf("uninterrupted %s, after kill and recovery %s", ref, got), k)
			}
			outcomes[got]++
		} else {
			// never started or already terminal: recovery must not touch it
			if d0, d1 := fullDigest(cv), fullDigest(av); d0 != d1 {
				report("plan-not-to-be-resumed-was-modified", planSt.String(), firstDiff(d0, d1), k)
			}
			outcomes["untouched:"+planSt.String()]++
		}
		// C09: no durably successful sequence action is invoked again
		for _, path := range readLines(filepath.Join(dir, "invocations-recover.log")) {
			oi := x.W.Objs[path]
			if planSt != workflow.Running {
				report("finished-plan-re-run", "real-kill", path+" was invoked by the recovering process", k)
				continue
			}
			if isSeqAction(oi) && durableSuccess(cv.Objs[path]) {
				report("durably-successful-action-invoked-again", "real-kill", fmt.Sprintf("%s (stored %s with %d attempts at the kill)", path, cv.Objs[path].Status, len(cv.Objs[path].Att)), k)
			}
		}
		if finished == nil && planSt == workflow.Running {
			report("finished-run-left-running-plan", "real-kill", "the first process had finished Wait, yet the stored plan is Running", k)
		}
		os.RemoveAll(dir)
	}
	res.Distinct = len(crashKinds) + len(outcomes)
	res.Notes = append(res.Notes, fmt.Sprintf("%s: dry run traced %d write-class system calls on %d threads (largest per-thread count %d); a kill was injected for every k in 1..%d (each thread counts its own calls; the first to reach its k-th call dies); stored plan status at the kill: %v; outcomes after recovery in a second process: %v",
		sc.Name, total, len(counts), maxK, maxK, crashKinds, outcomes))
	res.Samples = append(res.Samples, fmt.Sprintf("real kill: %s, k=1..%d, uninterrupted outcome %s", sc.DSL(), maxK, ref))
	if float64(maxK) < 0.8*float64(total) {
		res.Notes = append(res.Notes, fmt.Sprintf("note: the write-class calls were spread over several threads (%v), so the kill points enumerated are the per-thread ones, not every global position", counts))
	}
	return res
}
