package mc

import (
	"bufio"
	"fmt"
	"os"
	"os/exec"
	"path/filepath"
	"runtime"
	"sort"
	"strconv"
	"strings"

	coercion "github.com/element-of-surprise/coercion"
	"github.com/element-of-surprise/coercion/workflow"
	"github.com/element-of-surprise/coercion/workflow/storage/sqlite"
	bctx "github.com/gostdlib/base/context"
)

// C14 (ii): the process dies during Submit. A child process (this test binary in role killchild) opens a file-backed
// sqlite vault and submits one plan; strace turns the k-th write-class system call of the submitting thread into SIGKILL,
// for EVERY k up to the count measured in a dry run. After each kill the store is re-opened here and must hold either the
// complete plan or no trace of it.

const killSyscalls = "pwrite64,pwritev,write,fsync,fdatasync,ftruncate,unlinkat,unlink,renameat,rename"

// shapeSignature renders what must be equal between the submitted and the stored plan (ids and times are assigned later).
func shapeSignature(p *workflow.Plan) string {
	var b strings.Builder
	for _, o := range listObjects(p) {
		switch t := o.obj.(type) {
		case *workflow.Plan:
			fmt.Fprintf(&b, "plan:%s/%s/%s;", t.Name, t.Descr, t.Meta)
		case *workflow.Checks:
			fmt.Fprintf(&b, "checks:%d;", len(t.Actions))
		case *workflow.Block:
			fmt.Fprintf(&b, "block:%s/%d;", t.Name, t.ToleratedFailures)
		case *workflow.Sequence:
			fmt.Fprintf(&b, "seq:%s;", t.Name)
		case *workflow.Action:
			fmt.Fprintf(&b, "action:%s/%s/%v;", t.Name, t.Plugin, t.Req)
		}
	}
	return b.String()
}

func killPlan() *workflow.Plan { return basePlan(2) }

// killChildMain is the child: it must do all storage work on one locked OS thread (strace counts per thread).
func killChildMain() {
	runtime.LockOSThread()
	ctx := bctx.Background()
	reg := simpleRegistry()
	v, err := sqlite.New(ctx, *flagKillDir, reg)
	if err != nil {
		fmt.Println("KILLCHILD open failed:", err)
		os.Exit(3)
	}
	ws, err := coercion.New(ctx, reg, v, coercion.WithNoRecovery())
	if err != nil {
		fmt.Println("KILLCHILD workstream failed:", err)
		os.Exit(3)
	}
	// the marker lets the parent tell which system calls belong to Submit
	os.WriteFile(filepath.Join(*flagKillDir, "submit-begins"), []byte("x"), 0o644)
	id, err := ws.Submit(ctx, killPlan())
	if err != nil {
		fmt.Println("KILLCHILD submit failed:", err)
		os.Exit(3)
	}
	os.WriteFile(filepath.Join(*flagKillDir, "submit-returned"), []byte(id.String()), 0o644)
	// the same for Delete: a kill in the middle must leave the complete plan or nothing, never a hollowed-out plan
	os.WriteFile(filepath.Join(*flagKillDir, "delete-begins"), []byte("x"), 0o644)
	if err := v.Delete(ctx, id); err != nil {
		fmt.Println("KILLCHILD delete failed:", err)
		os.Exit(3)
	}
	os.WriteFile(filepath.Join(*flagKillDir, "delete-returned"), []byte("x"), 0o644)
	v.Close(ctx)
}

func runKillChild(dir string, straceArgs ...string) (exitErr error, out []byte) {
	args := append([]string{"-f"}, straceArgs...)
	args = append(args, os.Args[0], "-test.run=^TestKillChild$", "-test.timeout=600s", "-mc.role=killchild", "-mc.killdir="+dir)
	cmd := exec.Command("strace", args...)
	cmd.Env = append(os.Environ(), "GOMAXPROCS=2")
	out, err := cmd.CombinedOutput()
	return err, out
}

// inspectStore re-opens the store after a kill: complete plan or nothing.
func inspectStore(dir string) (state string, problem string) {
	ctx := bctx.Background()
	reg := simpleRegistry()
	v, err := sqlite.New(ctx, dir, reg)
	if err != nil {
		return "", "the store cannot be re-opened: " + err.Error()
	}
	defer v.Close(ctx)
	counts, err := rowCounts(ctx, v)
	if err != nil {
		return "", "row counts: " + err.Error()
	}
	ch, err := v.List(ctx, 0)
	if err != nil {
		return "", "List: " + err.Error()
	}
	var ids []string
	var planIDs []workflow.Plan
	_ = planIDs
	type entry struct{ id, name string }
	var entries []entry
	for s := range ch {
		if s.Err != nil {
			return "", "List stream: " + s.Err.Error()
		}
		entries = append(entries, entry{s.Result.ID.String(), s.Result.Name})
		ids = append(ids, s.Result.ID.String())
	}
	want := objectCounts(killPlan())
	switch len(entries) {
	case 0:
		for t, n := range counts {
			if n != 0 {
				return "", fmt.Sprintf("no plan is listed but table %s holds %d rows (orphans)", t, n)
			}
		}
		return "absent", ""
	case 1:
		for _, t := range sqliteTables {
			if counts[t] != want[t] {
				return "", fmt.Sprintf("one plan is listed but table %s holds %d rows, the plan has %d objects there", t, counts[t], want[t])
			}
		}
		var got *workflow.Plan
		ch2, err := v.List(ctx, 0)
		if err != nil {
			return "", err.Error()
		}
		for s := range ch2 {
			if s.Err == nil {
				got, err = v.Read(ctx, s.Result.ID)
				if err != nil {
					return "", "the listed plan cannot be read: " + err.Error()
				}
			}
		}
		if got == nil {
			return "", "the listed plan cannot be read"
		}
		if a, b := shapeSignature(got), shapeSignature(killPlan()); a != b {
			return "", fmt.Sprintf("the stored plan differs from the submitted one:\n got  %s\n want %s", a, b)
		}
		return "complete", ""
	}
	return "", fmt.Sprintf("%d plans are listed after one Submit: %v", len(entries), ids)
}

func killItems(tier string) []WorkItem { return killItemsFor("C14") }

func killItemsFor(prop string) []WorkItem {
	return []WorkItem{{Prop: prop, Kind: "enum", Enum: "kill", Shard: 0, NShards: 1}}
}

// enumKill measures the write-class system calls of the submitting thread in a dry run and then kills at every one.
func enumKill(env *EnumEnv, it *WorkItem) *EnumResult {
	res := &EnumResult{Exhaustive: true}
	if _, err := exec.LookPath("strace"); err != nil {
		res.Exhaustive = false
		res.Notes = append(res.Notes, "kill enumeration skipped: strace is not installed")
		return res
	}
	base := filepath.Join(*flagVerifDir, ".work", fmt.Sprintf("kill-%d", os.Getpid()))
	os.RemoveAll(base)
	os.MkdirAll(base, 0o755)
	defer os.RemoveAll(base)

	// dry run with a trace file: per thread, the matching calls in order
	dry := filepath.Join(base, "dry")
	os.MkdirAll(dry, 0o755)
	trace := filepath.Join(base, "trace.txt")
	if err, out := runKillChild(dry, "-o", trace, "-e", "trace="+killSyscalls+",openat"); err != nil {
		res.Exhaustive = false
		res.Notes = append(res.Notes, fmt.Sprintf("kill enumeration skipped: the dry run under strace failed (%v): %s", err, tail(string(out), 300)))
		return res
	}
	prop := it.Prop
	if prop == "" {
		prop = "C14"
	}
	if st, p := inspectStore(dry); st != "absent" {
		res.Found = append(res.Found, &EnumFound{V: Violation{Property: prop, Rule: "deleted-plan-not-removed", Signature: "dry-run", Msg: "uninterrupted Submit and Delete on a file-backed store: " + st + " " + p}, Input: map[string]any{"kill": 0}})
		return res
	}
	perThread := map[string]int{}
	perName := map[string]map[string]int{}
	inSubmit := map[string]int{}
	began := false
	f, _ := os.Open(trace)
	sc := bufio.NewScanner(f)
	sc.Buffer(make([]byte, 1<<20), 1<<20)
	for sc.Scan() {
		line := sc.Text()
		fields := strings.SplitN(line, " ", 2)
		if len(fields) < 2 {
			continue
		}
		tid, rest := fields[0], strings.TrimSpace(fields[1])
		if strings.HasPrefix(rest, "openat(") {
			if strings.Contains(rest, "submit-begins") {
				began = true
			}
			continue
		}
		name := rest
		if i := strings.IndexByte(rest, '('); i > 0 {
			name = rest[:i]
		}
		if !strings.Contains(","+killSyscalls+",", ","+name+",") {
			continue
		}
		perThread[tid]++
		if perName[tid] == nil {
			perName[tid] = map[string]int{}
		}
		perName[tid][name]++
		if began {
			inSubmit[tid]++
		}
	}
	f.Close()
	// the submitting thread is the one with the most matching calls
	type tc struct {
		tid string
		n   int
	}
	var tcs []tc
	for tid, n := range perThread {
		tcs = append(tcs, tc{tid, n})
	}
	sort.Slice(tcs, func(i, j int) bool { return tcs[i].n > tcs[j].n })
	if len(tcs) == 0 || tcs[0].n == 0 {
		res.Exhaustive = false
		res.Notes = append(res.Notes, "kill enumeration skipped: the dry run showed no write-class system calls")
		return res
	}
	total := tcs[0].n
	res.Notes = append(res.Notes, fmt.Sprintf("dry run: %d write-class system calls (%s) on the submitting thread, %d of them after Submit began (Submit, then Delete of the same plan); kill injected at every one of them", total, killSyscalls, inSubmit[tcs[0].tid]))
	outcomes := map[string]int{}
	// strace counts the invocations of every system call of the set separately (per thread), so each kill point is
	// addressed as "the k-th call of <name>": one enumeration per call name, every k up to that name's count.
	type killPoint struct {
		name string
		k    int
	}
	var points []killPoint
	var names []string
	for name := range perName[tcs[0].tid] {
		names = append(names, name)
	}
	sort.Strings(names)
	var perNameNote []string
	for _, name := range names {
		n := perName[tcs[0].tid][name]
		perNameNote = append(perNameNote, fmt.Sprintf("%s:%d", name, n))
		for k := 1; k <= n; k++ {
			points = append(points, killPoint{name, k})
		}
	}
	res.Notes = append(res.Notes, "kill points by call name: "+strings.Join(perNameNote, " "))
	for pi, pt := range points {
		k := pi + 1
		dir := filepath.Join(base, "k"+strconv.Itoa(k))
		os.MkdirAll(dir, 0o755)
		runKillChild(dir, "-o", "/dev/null", "-e", "trace="+pt.name, "-e", "inject="+pt.name+":signal=SIGKILL:when="+strconv.Itoa(pt.k))
		returned := false
		if _, err := os.Stat(filepath.Join(dir, "submit-returned")); err == nil {
			returned = true
		}
		deleting, deleted := false, false
		if _, err := os.Stat(filepath.Join(dir, "delete-begins")); err == nil {
			deleting = true
		}
		if _, err := os.Stat(filepath.Join(dir, "delete-returned")); err == nil {
			deleted = true
		}
		st, problem := inspectStore(dir)
		res.Evaluations++
		if problem != "" {
			rule := "killed-submit-left-partial-plan"
			if deleting {
				rule = "killed-delete-left-partial-plan"
			}
			res.Found = append(res.Found, &EnumFound{V: Violation{Property: prop, Rule: rule, Signature: "sqlite:kill", Msg: fmt.Sprintf("process killed at call %d of %s (kill point %d of %d): %s", pt.k, pt.name, k, total, problem)}, Input: map[string]any{"kill": pt.k, "call": pt.name}})
			break
		}
		if returned && !deleting && st != "complete" {
			res.Found = append(res.Found, &EnumFound{V: Violation{Property: prop, Rule: "acknowledged-submit-lost", Signature: "sqlite:kill", Msg: fmt.Sprintf("Submit had returned before the kill at call %d of %s but the plan is %s after re-opening", pt.k, pt.name, st)}, Input: map[string]any{"kill": pt.k, "call": pt.name}})
			break
		}
		if deleted && st != "absent" {
			res.Found = append(res.Found, &EnumFound{V: Violation{Property: prop, Rule: "acknowledged-delete-lost", Signature: "sqlite:kill", Msg: fmt.Sprintf("Delete had returned before the kill at call %d of %s but the plan is %s after re-opening", pt.k, pt.name, st)}, Input: map[string]any{"kill": pt.k, "call": pt.name}})
			break
		}
		if deleting {
			st += "(delete)"
		}
		outcomes[st]++
		os.RemoveAll(dir)
	}
	res.Distinct = len(outcomes) + total/2
	if len(outcomes) < 2 {
		res.Notes = append(res.Notes, fmt.Sprintf("WARNING: only the outcome(s) %v were observed over %d kill points", outcomes, total))
	}
	res.Notes = append(res.Notes, fmt.Sprintf("kill enumeration: %d kill points, outcomes after re-opening the store: %v", total, outcomes))
	res.Samples = append(res.Samples, fmt.Sprintf("kill at every k in 1..%d of a Submit and a Delete of %q on a file-backed store: outcomes after re-opening %v", total, killPlan().Name, outcomes))
	return res
}

func tail(s string, n int) string {
	if len(s) > n {
		return s[len(s)-n:]
	}
	return s
}

// replayKill re-runs one kill point (the k-th write-class system call of the storage thread) and inspects the store.
func replayKill(prop string, k int, call string) []*Violation {
	if call == "" {
		call = killSyscalls
	}
	base := filepath.Join(*flagVerifDir, ".work", fmt.Sprintf("killreplay-%d", os.Getpid()))
	os.RemoveAll(base)
	os.MkdirAll(base, 0o755)
	defer os.RemoveAll(base)
	if k > 0 {
		runKillChild(base, "-o", "/dev/null", "-e", "trace="+call, "-e", "inject="+call+":signal=SIGKILL:when="+strconv.Itoa(k))
	} else {
		runKillChild(base, "-o", "/dev/null", "-e", "trace="+killSyscalls)
	}
	st, problem := inspectStore(base)
	fmt.Printf("kill at call %d of %s: store after re-opening: %s %s\n", k, call, st, problem)
	if problem != "" {
		return []*Violation{{Property: prop, Rule: "killed-operation-left-partial-plan", Signature: "sqlite:kill", Msg: problem}}
	}
	return nil
}
