package mc

import (
	"context"
	"fmt"
	"sort"
	"strings"
	"testing"
	"time"

	coercion "github.com/element-of-surprise/coercion"
	"github.com/element-of-surprise/coercion/workflow"
	"github.com/element-of-surprise/coercion/workflow/storage"
)

// CrashState is a durable state a process death can leave behind: the plans as created plus a prefix of the
// serialised sequence of completed writes (sqlite applies each Update* as one auto-commit statement).
type CrashState struct {
	Writes  []WriteRec
	K       int    // number of writes of the crashing generation that are durable
	Clock   int64  // fake seconds at the crash
	Digest  string // canonical durable content
	Choices []string
	Running bool // at least one object is durably Running
}

// durableDigest is the canonical durable content after a write list: last write per object, statuses, attempt
// outcomes and zero-ness of times (recovery looks at nothing else).
func durableDigest(ws []WriteRec) (string, bool) {
	last := map[string]string{}
	running := false
	z := func(t time.Time) string {
		if t.IsZero() {
			return "0"
		}
		return "t"
	}
	for _, w := range ws {
		var st *workflow.State
		extra := ""
		switch o := w.Obj.(type) {
		case *workflow.Plan:
			st = o.State
			extra = o.Reason.String()
		case *workflow.Block:
			st = o.State
		case *workflow.Checks:
			st = o.State
		case *workflow.Sequence:
			st = o.State
		case *workflow.Action:
			st = o.State
			var b strings.Builder
			for _, a := range o.Attempts {
				switch {
				case a.Err == nil:
					b.WriteString("k")
				case a.Err.Permanent:
					b.WriteString("F")
				default:
					b.WriteString("t")
				}
				b.WriteString(z(a.End))
			}
			extra = b.String()
		}
		if st == nil {
			continue
		}
		last[w.Path] = fmt.Sprintf("%s,%s%s,%s", st.Status, z(st.Start), z(st.End), extra)
	}
	paths := make([]string, 0, len(last))
	for p := range last {
		paths = append(paths, p)
	}
	sort.Strings(paths)
	var b strings.Builder
	for _, p := range paths {
		if strings.HasPrefix(last[p], "Running") {
			running = true
		}
		b.WriteString(p + "=" + last[p] + ";")
	}
	return b.String(), running
}

// crashRecorder is the monitor of a run whose states are crash points.
type crashRecorder struct {
	base  []WriteRec // writes of earlier generations (already durable)
	seen  map[string]bool
	out   *[]*CrashState
	inner Monitor
	ref   *string // receives the uninterrupted outcome of the first complete execution
}

func (r *crashRecorder) AtState(x *Exec) {
	if r.inner != nil {
		r.inner.AtState(x)
	}
	w := x.W
	w.mu.Lock()
	ws := append(append([]WriteRec{}, r.base...), w.Writes...)
	k := len(w.Writes)
	now := w.nowSec()
	w.mu.Unlock()
	d, running := durableDigest(ws)
	if r.seen[d] {
		return
	}
	r.seen[d] = true
	*r.out = append(*r.out, &CrashState{Writes: ws, K: k, Clock: now, Digest: d, Choices: choicesOf(x), Running: running})
}

func (r *crashRecorder) AtEnd(x *Exec) {
	if r.inner != nil {
		r.inner.AtEnd(x)
	}
	if r.ref != nil && *r.ref == "" && x.Outcome == "done" {
		*r.ref = outcomeDigest(x)
	}
}

// outcomeDigest: status and reason of every plan (what C10 compares with the uninterrupted run).
func outcomeDigest(x *Exec) string {
	var b strings.Builder
	for pi := range x.Sc.Plans {
		p, err := x.ReadPlan(pi)
		if err != nil || p.State == nil {
			fmt.Fprintf(&b, "P%d:?;", pi)
			continue
		}
		fmt.Fprintf(&b, "P%d:%s/%s;", pi, p.State.Status, p.Reason)
	}
	return b.String()
}

// planObjects indexes the objects of a plan built by BuildPlan by path.
func planObjects(p *workflow.Plan) map[string]any {
	m := map[string]any{p.Name: p}
	chk := func(scope, g string, c *workflow.Checks) {
		if c == nil {
			return
		}
		m[scope+"/"+g] = c
		for _, a := range c.Actions {
			m[a.Name] = a
		}
	}
	chk(p.Name, "By", p.BypassChecks)
	chk(p.Name, "Pre", p.PreChecks)
	chk(p.Name, "Cont", p.ContChecks)
	chk(p.Name, "Post", p.PostChecks)
	chk(p.Name, "Def", p.DeferredChecks)
	for _, b := range p.Blocks {
		m[b.Name] = b
		chk(b.Name, "By", b.BypassChecks)
		chk(b.Name, "Pre", b.PreChecks)
		chk(b.Name, "Cont", b.ContChecks)
		chk(b.Name, "Post", b.PostChecks)
		chk(b.Name, "Def", b.DeferredChecks)
		for _, s := range b.Sequences {
			m[s.Name] = s
			for _, a := range s.Actions {
				m[a.Name] = a
			}
		}
	}
	return m
}

func applyWrite(ctx context.Context, v storage.Vault, objs map[string]any, w WriteRec) error {
	o := objs[w.Path]
	if o == nil {
		return fmt.Errorf("no object at %s", w.Path)
	}
	switch snap := w.Obj.(type) {
	case *workflow.Plan:
		p := o.(*workflow.Plan)
		p.State, p.Reason = copyState(snap.State), snap.Reason
		return v.UpdatePlan(ctx, p)
	case *workflow.Block:
		b := o.(*workflow.Block)
		b.State = copyState(snap.State)
		return v.UpdateBlock(ctx, b)
	case *workflow.Checks:
		c := o.(*workflow.Checks)
		c.State = copyState(snap.State)
		return v.UpdateChecks(ctx, c)
	case *workflow.Sequence:
		s := o.(*workflow.Sequence)
		s.State = copyState(snap.State)
		return v.UpdateSequence(ctx, s)
	case *workflow.Action:
		a := o.(*workflow.Action)
		a.State, a.Attempts = copyState(snap.State), copyAttempts(snap.Attempts)
		return v.UpdateAction(ctx, a)
	}
	return fmt.Errorf("unknown write %T", w.Obj)
}

// bootFrom prepares the store of a restarted process: the plans are created afresh (new ids; everything is
// addressed by path) and the durable writes are replayed through the public Update* API.
func bootFrom(cs *CrashState) func(x *Exec) error {
	return func(x *Exec) error {
		tmp, err := coercion.New(x.Ctx, x.Reg, x.Inner)
		if err != nil {
			return err
		}
		objs := map[string]any{}
		var built []*workflow.Plan
		for pi := range x.Sc.Plans {
			p := x.buildPlan(pi)
			if _, err := tmp.Submit(x.Ctx, p); err != nil {
				return fmt.Errorf("boot submit: %w", err)
			}
			built = append(built, p)
			x.registerPlan(pi, p)
			for k, v := range planObjects(p) {
				objs[k] = v
			}
		}
		for _, w := range cs.Writes {
			if err := applyWrite(x.Ctx, x.Inner, objs, w); err != nil {
				return fmt.Errorf("boot replay: %w", err)
			}
		}
		// the restart happens after the crash instant
		time.Sleep(time.Duration(cs.Clock+1+int64(x.Sc.CrashAgeSec)) * time.Second)
		x.Mem["restartAt"] = time.Now()
		// The monitors' picture of what was durable at the crash is the harness's own record of the writes (applied to the
		// objects above), not what the store's reader makes of it: the reader is code under test. Where the two disagree
		// on status or attempts the restarted engine is misinformed, which is reported with the first monitor call.
		for pi := range x.Sc.Plans {
			model := View(built[pi])
			x.Mem[fmt.Sprintf("crashView:%d", pi)] = model
			if p, err := x.ReadPlan(pi); err == nil {
				got := View(p)
				for _, path := range model.Order {
					m, g := model.Objs[path], got.Objs[path]
					if g == nil {
						continue
					}
					same := m.Status == g.Status && len(m.Att) == len(g.Att)
					for i := 0; same && i < len(m.Att); i++ {
						same = m.Att[i].HasErr == g.Att[i].HasErr && m.Att[i].HasResp == g.Att[i].HasResp
					}
					if !same {
						x.Mem["crashReadMismatch"] = fmt.Sprintf("%s was written as %s with %d attempts, the store reads it back as %s with %d attempts", path, m.Status, len(m.Att), g.Status, len(g.Att))
						break
					}
				}
			}
		}
		x.Mem["crashState"] = cs
		return nil
	}
}

// CrashOpts bounds the crash layer of one item.
type CrashOpts struct {
	FirstBound int  // deviation bound of the first run
	RecBound   int  // deviation bound of recovery runs
	Crashes    int  // 1 or 2 crashes
	Free       bool // free switches
}

func recoveryScenario(sc *Scenario) *Scenario {
	r := cloneScenario(sc)
	r.Threads = nil
	for pi := range sc.Plans {
		r.Threads = append(r.Threads, []APICall{{Op: "wait", Plan: pi}})
	}
	r.Crash = false
	return r
}

func runCrashItem(e *Explorer, pd *PropDef, it *WorkItem, res *WorkResult) {
	start := time.Now()
	sc := it.Scenario
	copts := CrashOpts{FirstBound: it.Args["first"], RecBound: it.Args["rec"], Crashes: it.Args["crashes"], Free: it.Opts.FreeSwitch}
	if copts.Crashes == 0 {
		copts.Crashes = 1
	}
	deadline := time.Time{}
	if it.Opts.MaxSeconds > 0 {
		deadline = start.Add(time.Duration(it.Opts.MaxSeconds) * time.Second)
	}
	total := &res.Stats
	total.Outcomes = map[string]int{}
	ref := ""
	var states []*CrashState
	seen := map[string]bool{}
	first := &Explorer{T: e.T, Sc: sc, Opts: ExploreOpts{Bound: copts.FirstBound, FreeSwitch: copts.Free, MaxSeconds: it.Opts.MaxSeconds}, Digest: DefaultDigest, ExecOpt: e.ExecOpt}
	first.NewMon = func() Monitor { return &crashRecorder{seen: seen, out: &states, ref: &ref} }
	first.Run()
	total.add(&first.Stats)
	res.Sample = first.Sample
	crashStates := 0
	var explore func(gen int, cs *CrashState, trail []string)
	explore = func(gen int, cs *CrashState, trail []string) {
		if !deadline.IsZero() && time.Now().After(deadline) {
			total.Capped = true
			return
		}
		crashStates++
		if cs.Running {
			total.BranchStates++ // distinct crash states with something durably Running (the non-trivial ones)
		}
		rsc := recoveryScenario(sc)
		var next []*CrashState
		nseen := map[string]bool{}
		rec := &Explorer{T: e.T, Sc: rsc, Opts: ExploreOpts{Bound: copts.RecBound, FreeSwitch: copts.Free, MaxSeconds: 30}, Digest: DefaultDigest}
		rec.ExecOpt = ExecOpts{Boot: bootFrom(cs), Gen: gen, WAL: e.ExecOpt.WAL, WALHeader: e.ExecOpt.WALHeader + fmt.Sprintf(" crash@%d", cs.K)}
		rec.NewMon = func() Monitor {
			var m Monitor
			if pd.NewMon != nil {
				m = pd.NewMon(rsc)
			}
			if gen < copts.Crashes {
				return &crashRecorder{base: cs.Writes, seen: nseen, out: &next, inner: m}
			}
			return m
		}
		rec.Run()
		bs := total.BranchStates
		total.add(&rec.Stats)
		total.BranchStates = bs
		x := rec
		for _, f := range x.Found {
			f.Choices = append(append(append([]string{}, trail...), fmt.Sprintf("CRASH@%d", cs.K)), f.Choices...)
			f.Scenario = sc
			if ref != "" {
				f.Events = append([]string{"uninterrupted outcome: " + ref, "crash state: " + cs.Digest}, f.Events...)
			}
			res.Found = append(res.Found, f)
		}
		if res.Sample2 == nil && rec.Sample != nil && cs.Running {
			s := *rec.Sample
			s.Choices = append(append(append([]string{}, trail...), fmt.Sprintf("CRASH@%d", cs.K)), s.Choices...)
			s.Scenario = sc
			res.Sample2 = &s
		}
		if gen < copts.Crashes {
			for _, n := range next {
				if n.K == 0 {
					continue // crashing again before the first write of the recovery is the same crash state
				}
				explore(gen+1, n, append(append(append([]string{}, trail...), fmt.Sprintf("CRASH@%d", cs.K)), n.Choices...))
			}
		}
	}
	// the uninterrupted outcome is handed to the recovery monitors through the scenario-independent side channel
	crashRef.Store(sc.Name, ref)
	for _, cs := range states {
		explore(1, cs, cs.Choices)
	}
	total.WallMS = time.Since(start).Milliseconds()
	res.Warnings = append(res.Warnings, first.Warnings...)
	_ = crashStates
}

func replayCrash(t *testing.T, pd *PropDef, sc *Scenario, choices []string, v Violation) int {
	// split the trail at the CRASH markers
	var segs [][]string
	var ks []int
	cur := []string{}
	for _, c := range choices {
		if strings.HasPrefix(c, "CRASH@") {
			var k int
			fmt.Sscanf(c, "CRASH@%d", &k)
			segs = append(segs, cur)
			ks = append(ks, k)
			cur = []string{}
			continue
		}
		cur = append(cur, c)
	}
	segs = append(segs, cur)
	var base []WriteRec
	var cs *CrashState
	ref := ""
	for gi := 0; gi < len(ks); gi++ {
		var states []*CrashState
		seen := map[string]bool{}
		var scg *Scenario
		opt := ExecOpts{}
		if gi == 0 {
			scg = sc
		} else {
			scg = recoveryScenario(sc)
			opt = ExecOpts{Boot: bootFrom(cs), Gen: gi}
		}
		ex := &Explorer{T: t, Sc: scg, ExecOpt: opt}
		var r *string
		if gi == 0 {
			r = &ref
		}
		ex.NewMon = func() Monitor { return &crashRecorder{base: base, seen: seen, out: &states, ref: r} }
		ex.runOnce(segs[gi], nil, false)
		cs = nil
		for _, s := range states {
			if s.K == ks[gi] && len(s.Choices) <= len(segs[gi]) {
				cs = s
			}
		}
		if cs == nil {
			fmt.Printf("cannot reproduce crash point %d of generation %d\n", ks[gi], gi)
			return 2
		}
		base = cs.Writes
	}
	crashRef.Store(sc.Name, ref)
	rsc := recoveryScenario(sc)
	ex := &Explorer{T: t, Sc: rsc, ExecOpt: ExecOpts{Boot: bootFrom(cs), Gen: len(ks)}}
	ex.NewMon = func() Monitor { return pd.NewMon(rsc) }
	x := ex.runOnce(segs[len(segs)-1], nil, false)
	fmt.Println("crash state:", cs.Digest)
	for _, ev := range x.W.Events {
		fmt.Println("  ", ev.String())
	}
	fmt.Printf("scenario: %s\noutcome of recovery: %s (uninterrupted: %s)\n", sc.DSL(), x.Outcome, ref)
	code := 0
	for _, vv := range x.Violations {
		fmt.Printf("VIOLATION property=%s replay=%s\n  rule=%s signature=%s: %s\n", vv.Property, *flagReplay, vv.Rule, vv.Signature, vv.Msg)
		code = 1
	}
	if code == 0 {
		fmt.Println("no violation on this tree for this schedule")
	}
	return code
}
