package mc

import (
	"flag"
	"fmt"
	"os"
	"strings"
	"testing"
)

var (
	flagRole      = flag.String("mc.role", "", "check | worker | replay | list")
	flagProp      = flag.String("mc.prop", "", "property id")
	flagTier      = flag.String("mc.tier", "quick", "quick | thorough")
	flagReplay    = flag.String("mc.replay", "", "replay artefact")
	flagWorkers   = flag.Int("mc.workers", 0, "worker processes (0 = NumCPU)")
	flagBudgetMin = flag.Int("mc.budgetmin", -1, "wall budget in minutes (-1 = default of the tier, 0 = none)")
	flagVerifDir  = flag.String("mc.dir", "/verif", "verif directory")
	flagScenario  = flag.String("mc.scenario", "", "only scenarios whose name contains this")
	flagKillDir   = flag.String("mc.killdir", "", "store directory of the kill child")
	flagChildSc   = flag.String("mc.childscenario", "", "scenario (JSON) of the run/recover child")
	flagBound     = flag.Int("mc.bound", -1, "override the deviation bound (explore1)")
	flagNoPrune   = flag.Bool("mc.noprune", false, "disable pruning (explore1)")
)

func TestMain(m *testing.M) {
	flag.Parse()
	switch *flagRole {
	case "check":
		os.Exit(coordinate(*flagProp, *flagTier))
	case "list":
		for _, id := range PropIDs() {
			fmt.Println(id)
		}
		os.Exit(0)
	}
	os.Exit(m.Run())
}

// TestWorker is the worker loop: it reads work items from stdin and answers on fd 3.
func TestWorker(t *testing.T) {
	if *flagRole != "worker" {
		t.Skip("not a worker")
	}
	workerLoop(t)
}

// TestReplay replays one artefact without the explorer.
func TestReplay(t *testing.T) {
	if *flagRole != "replay" {
		t.Skip("not a replay")
	}
	if code := replayFile(t, *flagReplay); code != 0 {
		t.Fail()
	}
}

func TestSmoke(t *testing.T) {
	if *flagRole != "" {
		t.Skip()
	}
	sc := &Scenario{Name: "smoke", Plans: []PlanSpec{{
		Pre:    Chk(A()),
		Blocks: []BlockSpec{{Seqs: []SeqSpec{Seq(A(), A()), Seq(A())}, Conc: 2}},
	}}}
	digest := ""
	x := RunExecution(t, sc, func(step int, en []string) string { return en[0] }, &funcMon{end: func(x *Exec) { digest = DefaultDigest(x) }}, ExecOpts{})
	for _, e := range x.W.Events {
		t.Log(e.String())
	}
	for i, p := range x.Points {
		t.Logf("%d: %v -> %s", i, p.Enabled, p.Chosen)
	}
	t.Logf("outcome=%s ticks=%d", x.Outcome, x.Ticks)
	t.Log(digest)
	if x.Outcome != "done" {
		t.Fatalf("outcome %s", x.Outcome)
	}
}

type funcMon struct {
	state func(x *Exec)
	end   func(x *Exec)
}

func (f *funcMon) AtState(x *Exec) {
	if f.state != nil {
		f.state(x)
	}
}
func (f *funcMon) AtEnd(x *Exec) {
	if f.end != nil {
		f.end(x)
	}
}

// TestExploreOne explores the selected scenarios of a property in-process (debugging aid).
func TestExploreOne(t *testing.T) {
	if *flagRole != "explore1" {
		t.Skip()
	}
	pd := Props[*flagProp]
	for _, it := range pd.Items(*flagTier) {
		if it.Scenario == nil || !strings.Contains(it.Scenario.Name, *flagScenario) {
			continue
		}
		it := it
		if it.Scenario.Crash {
			res := &WorkResult{}
			ce := &Explorer{T: t, Sc: it.Scenario, Opts: it.Opts}
			runCrashItem(ce, pd, &it, res)
			fmt.Printf("%s args=%v: %+v found=%d\n", it.Scenario.Name, it.Args, res.Stats, len(res.Found))
			for _, f := range res.Found {
				fmt.Printf("  %s: %s\n    %v\n", f.V.Key(), f.V.Msg, f.Choices)
			}
			if os.Getenv("MC_DUMP_CRASH") != "" {
				var states []*CrashState
				seen := map[string]bool{}
				ref := ""
				first := &Explorer{T: t, Sc: it.Scenario, Opts: ExploreOpts{Bound: it.Args["first"], FreeSwitch: it.Opts.FreeSwitch}, Digest: DefaultDigest}
				first.NewMon = func() Monitor { return &crashRecorder{seen: seen, out: &states, ref: &ref} }
				first.Run()
				for _, cs := range states {
					fmt.Printf("  K=%d %s\n", cs.K, cs.Digest)
					rsc := recoveryScenario(it.Scenario)
					rec := &Explorer{T: t, Sc: rsc, ExecOpt: ExecOpts{Boot: bootFrom(cs), Gen: 1}}
					rec.NewMon = func() Monitor { return pd.NewMon(rsc) }
					x := rec.runOnce(nil, nil, false)
					var invs []string
					for _, e := range x.W.Events {
						if e.Kind == "INV" {
							invs = append(invs, e.Path)
						}
					}
					fmt.Printf("      recovery: %s invs=%v violations=%d\n", x.Outcome, invs, len(x.Violations))
				}
			}
			continue
		}
		e := &Explorer{T: t, Sc: it.Scenario, Opts: it.Opts, Digest: DefaultDigest, NewMon: func() Monitor { return pd.NewMon(it.Scenario) }}
		e.Opts.MaxSeconds = 120
		if *flagBound >= 0 {
			e.Opts.Bound = *flagBound
		}
		e.Opts.NoPrune = *flagNoPrune
		e.Run()
		fmt.Printf("%s bound=%d free=%v: %+v found=%d\n", it.Scenario.Name, it.Opts.Bound, it.Opts.FreeSwitch, e.Stats, len(e.Found))
		for _, f := range e.Found {
			fmt.Printf("  %s: %s\n", f.V.Key(), f.V.Msg)
		}
		if os.Getenv("MC_DUMP_POINTS") != "" {
			x := RunExecution(t, it.Scenario, func(step int, en []string) string { return en[0] }, &funcMon{}, ExecOpts{})
			for i, p := range x.Points {
				fmt.Printf("   %d: %v -> %s (runningEnabled=%v)\n", i, p.Enabled, p.Chosen, p.RunningEnabled)
			}
		}
		if os.Getenv("MC_DUMP_SAMPLE") != "" && e.Sample != nil {
			fmt.Println("default schedule:", strings.Join(e.Sample.Choices, " | "))
			for _, ev := range e.Sample.Events {
				fmt.Println("   ", ev)
			}
		}
	}
}

// TestKillChild is the child process of the C14 kill enumeration.
func TestKillChild(t *testing.T) {
	if *flagRole != "killchild" {
		t.Skip("not a kill child")
	}
	killChildMain()
}

// TestRunChild is the child process of the real-kill cross-validation of C09/C10.
func TestRunChild(t *testing.T) {
	if *flagRole != "runchild" && *flagRole != "recoverchild" {
		t.Skip("not a run child")
	}
	runChildMain(*flagRole, *flagKillDir, *flagChildSc)
}

// TestEnumOne runs the enumerator items of a property in-process (debugging aid).
func TestEnumOne(t *testing.T) {
	if *flagRole != "enum1" {
		t.Skip()
	}
	pd := Props[*flagProp]
	for _, it := range pd.Items(*flagTier) {
		if it.Kind != "enum" {
			continue
		}
		if it.Scenario != nil && !strings.Contains(it.Scenario.Name, *flagScenario) {
			continue
		}
		it := it
		if os.Getenv("MC_PRE_BUBBLE") != "" {
			// reproduce a worker that ran a bubble execution before an enumerator outside a bubble
			sc := &Scenario{Name: "pre", Plans: []PlanSpec{{Blocks: []BlockSpec{{Seqs: []SeqSpec{Seq(A())}}}}}}
			RunExecution(t, sc, func(step int, en []string) string { return en[0] }, &funcMon{}, ExecOpts{})
		}
		if os.Getenv("MC_NO_FRESH_POOL") == "" {
			defer freshDefaultPool()()
		}
		res := pd.Enum(&EnumEnv{T: t, Tier: *flagTier}, &it)
		fmt.Printf("shard %d/%d: evals=%d distinct=%d found=%d notes=%v\n", it.Shard, it.NShards, res.Evaluations, res.Distinct, len(res.Found), res.Notes)
		for _, f := range res.Found {
			fmt.Printf("  %s: %s\n", f.V.Key(), f.V.Msg)
		}
	}
}

// TestBudget prints, per property and tier, the number of work items and the sum of their wall caps.
func TestBudget(t *testing.T) {
	if *flagRole != "budget" {
		t.Skip()
	}
	for _, id := range PropIDs() {
		for _, tier := range []string{"quick", "thorough"} {
			items := Props[id].Items(tier)
			sum, nocap := 0, 0
			for _, it := range items {
				if it.Kind == "explore" && it.Opts.MaxSeconds == 0 {
					nocap++
				}
				sum += it.Opts.MaxSeconds
			}
			fmt.Printf("%s %-8s items=%d capsum=%ds (%.0f min on 16 workers at worst) uncapped=%d\n", id, tier, len(items), sum, float64(sum)/16/60, nocap)
		}
	}
}

// TestLateProbe drives one hand-written schedule: let the first action time out, start the next sequence, then let the
// late answer of the first action arrive (debugging aid for the late-answer scenarios).
func TestLateProbe(t *testing.T) {
	if *flagRole != "lateprobe" {
		t.Skip()
	}
	var sc *Scenario
	for _, s := range FamilyConc("quick") {
		if s.Name == "conc-overrun-late-c1-tall" {
			sc = s
		}
	}
	ticked := false
	x := RunExecution(t, sc, func(step int, en []string) string {
		has := func(sub string) string {
			for _, l := range en {
				if strings.Contains(l, sub) {
					return l
				}
			}
			return ""
		}
		if !ticked && has("TICK") != "" && has("INV|P0/B0/S0/A0") != "" {
			ticked = true
			return "TICK"
		}
		if l := has("INV|P0/B0/S0/A0"); l != "" && has("INV|P0/B0/S1/A0") != "" {
			return l // the late answer while the next sequence's call is pending
		}
		if l := has("INV|P0/B0/S0/A0"); l != "" && ticked && len(en) > 1 {
			for _, o := range en {
				if o != l && o != "TICK" {
					return o
				}
			}
			return "TICK"
		}
		return en[0]
	}, monC02{}, ExecOpts{})
	for _, e := range x.W.Events {
		fmt.Println("   ", e.String())
	}
	for _, v := range x.Violations {
		fmt.Println("VIOLATION", v.Rule, v.Msg)
	}
	fmt.Println("outcome", x.Outcome)
}
