package mc

import (
	"fmt"
	"strings"

	"github.com/element-of-surprise/coercion/workflow"
)

// C06: bypass and pre-check gating.
type monC06 struct{}

// scopes lists every scope path of the scenario: plans and blocks.
func (x *Exec) scopes() []string {
	var out []string
	for pi := range x.Sc.Plans {
		out = append(out, fmt.Sprintf("P%d", pi))
		for bi := range x.Sc.Plans[pi].Blocks {
			out = append(out, fmt.Sprintf("P%d/B%d", pi, bi))
		}
	}
	return out
}

// inScope reports whether the object belongs to the scope (a block belongs to its plan's scope as well).
func inScope(oi *ObjInfo, scope string) bool {
	return oi.Path == scope || strings.HasPrefix(oi.Path, scope+"/")
}

// recoveryGating applies the gating rules across a crash: what was durably decided before the crash still gates what
// the restarted engine may start.
func (monC06) recoveryGating(x *Exec) {
	from, to := newEvents(x, "c06r")
	if from == to {
		return
	}
	h := NewHist(x, -1)
	for k := from; k < to; k++ {
		e := &h.Events[k]
		if e.Kind != "INV" {
			continue
		}
		oi := x.W.Objs[e.Path]
		if oi == nil {
			continue
		}
		if cv0 := crashView(x, oi.Plan); cv0 != nil {
			// a scope whose bypass checks had all durably succeeded before the crash stays bypassed: nothing of it, neither
			// another check group nor a sequence action, is invoked by the restarted process
			for _, scope := range x.scopes() {
				if !inScope(oi, scope) {
					continue
				}
				if by, _, _, _, _ := x.scopeChecks(scope); by == nil {
					continue
				}
				bo := cv0.Objs[scope+"/By"]
				if bo == nil || bo.Status != workflow.Completed {
					continue
				}
				allDone := true
				for _, a := range x.groupActions(scope + "/By") {
					if ao := cv0.Objs[a.Path]; ao == nil || ao.Status != workflow.Completed {
						allDone = false
					}
				}
				if allDone {
					x.Report(&Violation{Property: "C06", Rule: "invoked-although-bypassed", Signature: "bypass-across-crash",
						Msg: fmt.Sprintf("recovery invoked %s although every bypass check of %s had durably succeeded before the crash", e.Path, scope)})
				}
			}
		}
		if !isSeqAction(oi) {
			continue
		}
		cv := crashView(x, oi.Plan)
		if cv == nil {
			continue
		}
		// only sequences that had not been started before the crash are "started" by the recovery
		if ss := cv.Objs[oi.Parent]; ss == nil || ss.Status != workflow.NotStarted {
			continue
		}
		planPath := fmt.Sprintf("P%d", oi.Plan)
		for _, scope := range []string{planPath, fmt.Sprintf("%s/B%d", planPath, oi.Block)} {
			_, pre, cont, _, _ := x.scopeChecks(scope)
			if pre != nil {
				if po := cv.Objs[scope+"/Pre"]; po != nil && po.Status == workflow.Failed {
					x.Report(&Violation{Property: "C06", Rule: "sequence-action-after-failed-precheck", Signature: "pre-across-crash",
						Msg: fmt.Sprintf("recovery invoked %s although the pre-checks of %s were durably Failed", e.Path, scope)})
				}
				if h.groupFailedEver(x, scope+"/Pre", k) {
					x.Report(&Violation{Property: "C06", Rule: "sequence-action-after-failed-precheck", Signature: "pre-across-crash",
						Msg: fmt.Sprintf("recovery invoked %s although a pre-check of %s failed after the restart", e.Path, scope)})
				}
			}
			if cont != nil {
				co := cv.Objs[scope+"/Cont"]
				if co != nil && co.Status == workflow.Failed {
					x.Report(&Violation{Property: "C06", Rule: "sequence-action-after-failed-initial-contcheck", Signature: "cont-across-crash",
						Msg: fmt.Sprintf("recovery started %s although the continuous checks of %s were durably Failed", oi.Parent, scope)})
				}
				passedBefore := co != nil && co.Status == workflow.Completed
				passedNow := h.groupPassed(x, scope+"/Cont", k)
				if h.groupFailedEver(x, scope+"/Cont", k) {
					x.Report(&Violation{Property: "C06", Rule: "sequence-action-after-failed-initial-contcheck", Signature: "cont-across-crash",
						Msg: fmt.Sprintf("recovery started %s although a continuous check of %s failed after the restart", oi.Parent, scope)})
				} else if !passedBefore && !passedNow {
					x.Report(&Violation{Property: "C06", Rule: "sequence-action-without-initial-contcheck", Signature: "cont-initial-across-crash",
						Msg: fmt.Sprintf("recovery started %s although no run of the continuous checks of %s has passed, neither durably before the crash (stored %v) nor after the restart", oi.Parent, scope, statusOf(co))})
				}
			}
		}
	}
}

func statusOf(o *ObjView) string {
	if o == nil {
		return "?"
	}
	return o.Status.String()
}

func (m monC06) AtState(x *Exec) {
	if _, ok := recoveryMode(x); ok {
		m.recoveryGating(x)
		return
	}
	from, to := newEvents(x, "c06")
	if from == to {
		return
	}
	h := NewHist(x, 0)
	for k := from; k < to; k++ {
		e := &h.Events[k]
		if e.Kind != "INV" || e.Gen != 0 {
			continue
		}
		oi := x.W.Objs[e.Path]
		if oi == nil {
			continue
		}
		for _, scope := range x.scopes() {
			if !inScope(oi, scope) {
				continue
			}
			by, pre, cont, _, _ := x.scopeChecks(scope)
			own := oi.Scope == scope
			// all bypass checks succeeded => nothing else of the scope is invoked
			if by != nil && !(own && oi.Group == "by") && h.groupPassed(x, scope+"/By", k) {
				x.Report(&Violation{Property: "C06", Rule: "invoked-although-bypassed", Signature: "bypass",
					Msg: fmt.Sprintf("%s was invoked although every bypass check of %s had succeeded", e.Path, scope)})
			}
			// nothing but the bypass checks themselves may start before the bypass checks are decided
			if by != nil && !(own && oi.Group == "by") && !h.groupPassed(x, scope+"/By", k) && !h.groupFailedEver(x, scope+"/By", k) {
				x.Report(&Violation{Property: "C06", Rule: "invoked-before-bypass-decided", Signature: "bypass",
					Msg: fmt.Sprintf("%s was invoked before the bypass checks of %s finished", e.Path, scope)})
			}
			if isSeqAction(oi) {
				if pre != nil && h.groupFailedEver(x, scope+"/Pre", k) {
					x.Report(&Violation{Property: "C06", Rule: "sequence-action-after-failed-precheck", Signature: "pre",
						Msg: fmt.Sprintf("%s was invoked although a pre-check of %s had failed", e.Path, scope)})
				}
				if cont != nil && initialContFailed(x, h, scope, k) {
					x.Report(&Violation{Property: "C06", Rule: "sequence-action-after-failed-initial-contcheck", Signature: "cont-initial",
						Msg: fmt.Sprintf("%s was invoked although the initial run of a continuous check of %s had failed", e.Path, scope)})
				}
			}
		}
	}
}

// initialContFailed: invocation #0 of a continuous-check action of the scope returned a failure before idx.
func initialContFailed(x *Exec, h *Hist, scope string, idx int) bool {
	for _, a := range x.groupActions(scope + "/Cont") {
		cs := h.callsBefore(a.Path, idx)
		if len(cs) > 0 && cs[0].Returned && cs[0].EndIdx < idx && (cs[0].PermFail() || cs[0].TransFail()) {
			return true
		}
	}
	return false
}

// firstSeqInv returns the index of the first sequence-action invocation of the scope, or -1.
func firstSeqInv(x *Exec, h *Hist, scope string) int {
	best := -1
	for path, cs := range h.Calls {
		oi := x.W.Objs[path]
		if !isSeqAction(oi) || !inScope(oi, scope) || len(cs) == 0 {
			continue
		}
		if best < 0 || cs[0].InvIdx < best {
			best = cs[0].InvIdx
		}
	}
	return best
}

func (monC06) AtEnd(x *Exec) {
	if _, ok := recoveryMode(x); ok {
		return
	}
	h := NewHist(x, 0)
	n := len(h.Events)
	if x.Outcome == "hang" {
		x.Report(&Violation{Property: "C06", Rule: "plan-never-ended", Signature: hangCause(x, h), Msg: "the plan did not reach a terminal state"})
		return
	}
	if x.Outcome != "done" {
		return
	}
	onlyBypassFails := true
	for _, oi := range x.W.Objs {
		if oi.Kind == "action" && oi.Group != "by" && oi.Act != nil && !(len(oi.Act.Script) == 0 || (oi.Act.Pure() && oi.Act.Script[0] == OK)) {
			onlyBypassFails = false
		}
	}
	for pi := range x.Sc.Plans {
		p, err := x.ReadPlan(pi)
		if err != nil {
			continue
		}
		v := View(p)
		planPath := fmt.Sprintf("P%d", pi)
		planStarted := false
		for i := range h.Events {
			if h.Events[i].Kind == "W" && h.Events[i].Path == planPath {
				planStarted = true
				break
			}
		}
		if !planStarted {
			continue
		}
		planBypassed := x.Sc.Plans[pi].Bypass != nil && h.groupPassed(x, planPath+"/By", n)
		for _, scope := range x.scopes() {
			so := x.W.Objs[scope]
			if so == nil || so.Plan != pi {
				continue
			}
			by, pre, cont, _, _ := x.scopeChecks(scope)
			st := v.Objs[scope]
			if st == nil {
				continue
			}
			entered := so.Kind == "plan"
			if so.Kind == "block" {
				for i := range h.Events {
					if h.Events[i].Kind == "W" && h.Events[i].Path == scope && h.Events[i].Status == "Running" {
						entered = true
						break
					}
				}
			}
			if !entered {
				continue
			}
			if by != nil && h.groupPassed(x, scope+"/By", n) {
				if st.Status != workflow.Completed {
					x.Report(&Violation{Property: "C06", Rule: "bypassed-scope-not-completed", Signature: "bypass",
						Msg: fmt.Sprintf("%s was bypassed but is stored %s", scope, st.Status)})
				}
				continue
			}
			if by != nil && h.groupFailedEver(x, scope+"/By", n) && onlyBypassFails && !(so.Kind == "block" && planBypassed) {
				// the scope must have run normally: everything but bypass and continuous checks invoked, scope Completed
				if st.Status != workflow.Completed {
					x.Report(&Violation{Property: "C06", Rule: "bypass-failure-failed-the-scope", Signature: "bypass",
						Msg: fmt.Sprintf("only bypass checks failed in this scenario, yet %s is stored %s", scope, st.Status)})
				}
				for _, oi := range x.W.Objs {
					if oi.Kind == "action" && inScope(oi, scope) && oi.Group != "by" && oi.Group != "cont" && len(h.Calls[oi.Path]) == 0 {
						// an inner bypassed block legitimately skips its content
						innerBypassed := false
						if oi.Block >= 0 && so.Kind == "plan" {
							bp := fmt.Sprintf("%s/B%d", planPath, oi.Block)
							if bby, _, _, _, _ := x.scopeChecks(bp); bby != nil && h.groupPassed(x, bp+"/By", n) {
								innerBypassed = true
							}
						}
						if !innerBypassed {
							x.Report(&Violation{Property: "C06", Rule: "scope-did-not-run-after-failed-bypass", Signature: "bypass",
								Msg: fmt.Sprintf("%s was never invoked although the bypass checks of %s failed and nothing else failed", oi.Path, scope)})
						}
					}
				}
			}
			preFailed := pre != nil && h.groupFailedEver(x, scope+"/Pre", n)
			contInitFailed := cont != nil && initialContFailed(x, h, scope, n) && func() bool {
				// the failing initial run must precede any sequence action of the scope to count as "initial"
				fs := firstSeqInv(x, h, scope)
				for _, a := range x.groupActions(scope + "/Cont") {
					if cs := h.Calls[a.Path]; len(cs) > 0 && cs[0].Returned && (cs[0].PermFail() || cs[0].TransFail()) && (fs < 0 || cs[0].EndIdx < fs) {
						return true
					}
				}
				return false
			}()
			if (preFailed || contInitFailed) && st.Status != workflow.Failed {
				x.Report(&Violation{Property: "C06", Rule: "scope-not-failed-after-failed-precheck", Signature: "pre",
					Msg: fmt.Sprintf("a pre-check or initial continuous check of %s failed but it is stored %s", scope, st.Status)})
			}
		}
	}
}

func init() {
	register(&PropDef{
		ID:    "C06",
		Level: "model_checking",
		Rule: "family F-chk (every subset of the five check groups at plan or block level, 0/1 failing group, plus both levels with two actions per group) and sharp scenarios; " +
			"every order of visible operations within the deviation bound; each invocation is checked against the bypass / pre-check / initial continuous-check outcomes preceding it, the final stored plan against the gating rules; " +
			"distinct_nontrivial = distinct states in which two or more logical threads were enabled",
		Assumptions: []string{"a free worker-pool runner always exists (64 runners)", "I/O granularity",
			"'initial run of a continuous check' = its invocation #0; 'the scope runs normally after a failed bypass' is decided as: in scenarios where only bypass checks fail, every non-bypass, non-continuous action of the scope is invoked and the scope ends Completed"},
		NewMon: func(sc *Scenario) Monitor { return monC06{} },
		Items: func(tier string) []WorkItem {
			var items []WorkItem
			b := 1
			if tier == "thorough" {
				b = 2
			}
			for _, sc := range FamilyChk(tier) {
				items = append(items, explore("C06", sc, b, true))
			}
			for _, sc := range FamilySharp(tier) {
				items = append(items, explore("C06", sc, b, true))
			}
			for _, sc := range FamilyCont(tier) {
				if strings.HasPrefix(sc.Name, "cont-nodelay-") {
					// small: the tick that lets the (possibly missing) initial run happen late is a paid deviation
					items = append(items, explore("C06", sc, b+1, true))
					continue
				}
				if strings.HasSuffix(sc.Name, "-slow") && tier != "thorough" {
					// many timer-driven threads: every free switch multiplies; one paid deviation instead
					items = append(items, explore("C06", sc, 1, false))
					continue
				}
				items = append(items, explore("C06", sc, b-1, true))
			}
			// the same gating across a crash: every durable state of the check-group scenarios is a crash point
			var crash []*Scenario
			for _, sc := range FamilyCrash(tier) {
				if strings.Contains(sc.Name, "chk-") || strings.Contains(sc.Name, "cont-fails") || strings.Contains(sc.Name, "all-groups") || strings.Contains(sc.Name, "-def") {
					crash = append(crash, sc)
				}
			}
			for _, it := range crashItems("C06", tier, crash) {
				it.Args["first"] = 1 // the crash must be able to fall between two parallel check groups
				if tier != "thorough" {
					it.Opts.MaxSeconds = 40
					it.Args["crashes"] = 1 // the second crash is C09/C10's business in the quick tier
				}
				items = append(items, it)
			}
			return items
		},
	})
}
