package mc

import (
	"fmt"
	"github.com/google/uuid"
	"reflect"
	"strings"
	"time"

	"github.com/element-of-surprise/coercion/workflow"
	"github.com/element-of-surprise/coercion/workflow/builder"
)

// C20: builder. A call is a small code; the same code is executed on the real builder and on a reference
// interpreter that constructs the hierarchy directly.

type bCall string

var builderAlphabet = []bCall{
	"checks:pre", "checks:cont", "checks:post", "checks:bypass", "checks:deferred", "checks:unknown", "checks:kind99", "checks:nil", "checks:nilaction", "checks:withaction",
	"block", "block:noname", "block:nodescr",
	"seq", "seq:nil", "seq:noname", "seq:nodescr", "seq:withaction",
	"action", "action:nil", "action:noname", "action:nodescr", "action:noplugin",
	"up", "plan", "reset", "reset:group", "reset:blank",
}

var builderGroupID = uuid.MustParse("01890000-0000-7000-8000-00000000b111")

// blockArgs varies every field of a block with the position of the call (negative tolerances are the documented
// "any number may fail"; the builder copies values, judging them is Submit's business): the direct construction
// copies the same values.
func blockArgs(n int) builder.BlockArgs {
	a := builder.BlockArgs{Name: fmt.Sprintf("b%d", n), Descr: "d"}
	switch n % 4 {
	case 0:
		a.Concurrency, a.ToleratedFailures = 2, 1
	case 1:
		a.Concurrency, a.ToleratedFailures, a.EntranceDelay = 0, -1, time.Second
		a.Key = uuid.MustParse("01890000-0000-7000-8000-00000000b001")
	case 2:
		a.Concurrency, a.ToleratedFailures, a.EntranceDelay, a.ExitDelay = -1, 0, -time.Second, 2*time.Second
	case 3:
		a.Concurrency, a.ToleratedFailures, a.ExitDelay = 5, -3, -2*time.Second
	}
	return a
}

func newAction(n int) *workflow.Action {
	return &workflow.Action{Name: fmt.Sprintf("a%d", n), Descr: "d", Plugin: "p"}
}

// applyReal performs the call on the real builder; n numbers the objects so that both sides create equal ones.
// It returns the plan and error of a Plan() call (only for "plan") and whether it was a Plan() call.
func applyReal(b *builder.BuildPlan, c bCall, n int) (plan *workflow.Plan, perr error, isPlan bool) {
	switch c {
	case "checks:pre":
		b.AddChecks(builder.PreChecks, &workflow.Checks{})
	case "checks:cont":
		b.AddChecks(builder.ContChecks, &workflow.Checks{})
	case "checks:post":
		b.AddChecks(builder.PostChecks, &workflow.Checks{})
	case "checks:bypass":
		b.AddChecks(builder.BypassChecks, &workflow.Checks{})
	case "checks:deferred":
		b.AddChecks(builder.DeferredChecks, &workflow.Checks{})
	case "checks:unknown":
		b.AddChecks(builder.CTUnknown, &workflow.Checks{})
	case "checks:kind99":
		b.AddChecks(builder.ChecksType(99), &workflow.Checks{}) // a value outside the declared constants
	case "checks:nil":
		b.AddChecks(builder.PreChecks, nil)
	case "checks:nilaction":
		b.AddChecks(builder.PreChecks, &workflow.Checks{Actions: []*workflow.Action{newAction(n), nil}})
	case "checks:withaction":
		b.AddChecks(builder.PostChecks, &workflow.Checks{Actions: []*workflow.Action{newAction(n)}})
	case "block":
		b.AddBlock(blockArgs(n))
	case "block:noname":
		b.AddBlock(builder.BlockArgs{Descr: "d"})
	case "block:nodescr":
		b.AddBlock(builder.BlockArgs{Name: "b"})
	case "seq":
		b.AddSequence(&workflow.Sequence{Name: fmt.Sprintf("s%d", n), Descr: "d"})
	case "seq:nil":
		b.AddSequence(nil)
	case "seq:noname":
		b.AddSequence(&workflow.Sequence{Descr: "d"})
	case "seq:nodescr":
		b.AddSequence(&workflow.Sequence{Name: "s"})
	case "seq:withaction":
		b.AddSequence(&workflow.Sequence{Name: fmt.Sprintf("s%d", n), Descr: "d", Actions: []*workflow.Action{newAction(n)}})
	case "action":
		b.AddAction(newAction(n))
	case "action:nil":
		b.AddAction(nil)
	case "action:noname":
		b.AddAction(&workflow.Action{Descr: "d", Plugin: "p"})
	case "action:nodescr":
		b.AddAction(&workflow.Action{Name: "a", Plugin: "p"})
	case "action:noplugin":
		b.AddAction(&workflow.Action{Name: "a", Descr: "d"})
	case "up":
		b.Up()
	case "plan":
		p, err := b.Plan()
		return p, err, true
	case "reset":
		b.Reset(fmt.Sprintf("plan%d", n), "descr")
	case "reset:group":
		b.Reset(fmt.Sprintf("plan%d", n), "descr", builder.WithGroupID(builderGroupID))
	case "reset:blank":
		b.Reset(" ", "descr")
	default:
		panic("unknown call " + string(c))
	}
	return nil, nil, false
}

// refBuilder is the reference interpreter.
type refBuilder struct {
	plan            *workflow.Plan
	chain           []any
	emitted         bool
	misuse          bool // a misuse happened since the last successful reset
	misuseAfterEmit bool
	dead            bool // the last Reset failed: there is no plan at all
	everEmitted     bool // a plan was handed out before the last Reset: the builder must not share anything with it
}

func newRef(name string) *refBuilder {
	p := &workflow.Plan{Name: name, Descr: "descr"}
	return &refBuilder{plan: p, chain: []any{p}}
}

// apply returns true when the call is a misuse in the current state.
func (r *refBuilder) apply(c bCall, n int) (misuse bool) {
	if c == "reset" || c == "reset:group" {
		ever := r.everEmitted || r.emitted
		*r = *newRef(fmt.Sprintf("plan%d", n))
		r.everEmitted = ever
		if c == "reset:group" {
			r.plan.GroupID = builderGroupID
		}
		return false
	}
	if c == "reset:blank" {
		r.dead, r.misuse, r.emitted = true, true, false
		return true
	}
	if r.misuse {
		return true // everything after the first misuse is a no-op that keeps reporting it
	}
	if c == "plan" {
		if r.emitted {
			r.misuse, r.misuseAfterEmit = true, true
			return true
		}
		r.emitted = true
		return false
	}
	if r.emitted {
		r.misuse, r.misuseAfterEmit = true, true
		return true
	}
	cur := r.chain[len(r.chain)-1]
	bad := func() bool { r.misuse = true; return true }
	slot := func(kind string) **workflow.Checks {
		switch t := cur.(type) {
		case *workflow.Plan:
			switch kind {
			case "pre":
				return &t.PreChecks
			case "cont":
				return &t.ContChecks
			case "post":
				return &t.PostChecks
			case "bypass":
				return &t.BypassChecks
			case "deferred":
				return &t.DeferredChecks
			}
		case *workflow.Block:
			switch kind {
			case "pre":
				return &t.PreChecks
			case "cont":
				return &t.ContChecks
			case "post":
				return &t.PostChecks
			case "bypass":
				return &t.BypassChecks
			case "deferred":
				return &t.DeferredChecks
			}
		}
		return nil
	}
	switch {
	case strings.HasPrefix(string(c), "checks:"):
		kind := strings.TrimPrefix(string(c), "checks:")
		var ch *workflow.Checks
		switch kind {
		case "nil", "nilaction", "unknown", "kind99":
			return bad()
		case "withaction":
			kind = "post"
			ch = &workflow.Checks{Actions: []*workflow.Action{newAction(n)}}
		default:
			ch = &workflow.Checks{}
		}
		s := slot(kind)
		if s == nil || *s != nil {
			return bad() // wrong level or duplicate group
		}
		*s = ch
		r.chain = append(r.chain, ch)
	case c == "block":
		p, ok := cur.(*workflow.Plan)
		if !ok {
			return bad()
		}
		ba := blockArgs(n)
		b := &workflow.Block{Name: ba.Name, Descr: ba.Descr, Key: ba.Key, EntranceDelay: ba.EntranceDelay, ExitDelay: ba.ExitDelay,
			Concurrency: ba.Concurrency, ToleratedFailures: ba.ToleratedFailures}
		p.Blocks = append(p.Blocks, b)
		r.chain = append(r.chain, b)
	case c == "block:noname", c == "block:nodescr", c == "seq:nil", c == "seq:noname", c == "seq:nodescr",
		c == "action:nil", c == "action:noname", c == "action:nodescr", c == "action:noplugin":
		return bad()
	case c == "seq", c == "seq:withaction":
		b, ok := cur.(*workflow.Block)
		if !ok {
			return bad()
		}
		s := &workflow.Sequence{Name: fmt.Sprintf("s%d", n), Descr: "d"}
		if c == "seq:withaction" {
			s.Actions = []*workflow.Action{newAction(n)}
		}
		b.Sequences = append(b.Sequences, s)
		r.chain = append(r.chain, s)
	case c == "action":
		switch t := cur.(type) {
		case *workflow.Sequence:
			t.Actions = append(t.Actions, newAction(n))
		case *workflow.Checks:
			t.Actions = append(t.Actions, newAction(n))
		default:
			return bad()
		}
	case c == "up":
		if len(r.chain) < 2 {
			return bad()
		}
		r.chain = r.chain[:len(r.chain)-1]
	}
	return false
}

// key is the abstract state: everything the future behaviour can depend on.
func (r *refBuilder) key() string {
	if r.everEmitted {
		// same abstract state, but plans handed out earlier are still in the caller's hands
		r2 := *r
		r2.everEmitted = false
		return "E+" + r2.key()
	}
	if r.dead {
		return "dead"
	}
	var b strings.Builder
	fmt.Fprintf(&b, "e%v,m%v,a%v|", r.emitted, r.misuse, r.misuseAfterEmit)
	for _, n := range r.chain {
		switch t := n.(type) {
		case *workflow.Plan:
			fmt.Fprintf(&b, "P[%v%v%v%v%v,b%d]", t.BypassChecks != nil, t.PreChecks != nil, t.ContChecks != nil, t.PostChecks != nil, t.DeferredChecks != nil, min(len(t.Blocks), 2))
		case *workflow.Block:
			fmt.Fprintf(&b, "B[%v%v%v%v%v,s%d]", t.BypassChecks != nil, t.PreChecks != nil, t.ContChecks != nil, t.PostChecks != nil, t.DeferredChecks != nil, min(len(t.Sequences), 2))
		case *workflow.Sequence:
			fmt.Fprintf(&b, "S[a%d]", min(len(t.Actions), 2))
		case *workflow.Checks:
			fmt.Fprintf(&b, "C[a%d]", min(len(t.Actions), 2))
		}
	}
	return b.String()
}

// checkBuilderSeq runs the whole sequence on a fresh real builder and on the reference and checks the oracle after
// every call. It returns the first disagreement.
func checkBuilderSeq(seq []bCall) (rule, sig, msg string) {
	step := -1
	defer func() {
		if r := recover(); r != nil {
			c := "New"
			if step >= 0 && step < len(seq) {
				c = string(seq[step])
			}
			rule, sig, msg = "builder-panicked", "panic:"+c+":"+panicClass(fmt.Sprint(r)), fmt.Sprintf("call %d (%s) of %v panicked: %v", step, c, seq, r)
		}
	}()
	b, err := builder.New("plan", "descr")
	if err != nil {
		return "new-failed", "new", err.Error()
	}
	ref := newRef("plan")
	var firstErr error // the error value of the first misuse
	// plans handed out so far, each with the directly constructed plan it equalled at that moment (the reference never
	// touches a plan again once it was emitted): whatever is done to the builder later must not change them
	type handedOut struct {
		real, want *workflow.Plan
		at         int
	}
	var emitted []handedOut
	for i, c := range seq {
		step = i
		wasMisuse := ref.misuse
		mis := ref.apply(c, i)
		plan, perr, isPlan := applyReal(b, c, i)
		where := fmt.Sprintf("after call %d (%s) of %v", i, c, seq)
		if c == "reset" || c == "reset:group" {
			firstErr = nil
		}
		switch {
		case !ref.misuse:
			if b.Err() != nil {
				return "error-without-misuse", string(c), fmt.Sprintf("%s: Err() = %v although no call was a misuse", where, b.Err())
			}
			if isPlan {
				if perr != nil || plan == nil {
					return "error-without-misuse", "plan", fmt.Sprintf("%s: Plan() returned (%v, %v) for a correct call sequence", where, plan, perr)
				}
				if !reflect.DeepEqual(plan, ref.plan) {
					return "plan-differs-from-direct-construction", planDiffClass(plan, ref.plan), fmt.Sprintf("%s: the emitted plan differs from the directly constructed one: %s", where, planDiffClass(plan, ref.plan))
				}
				for _, h := range emitted {
					if h.real == plan {
						return "emitted-plan-object-handed-out-twice", "plan", fmt.Sprintf("%s: Plan() returned the very object it had returned after call %d", where, h.at)
					}
				}
				emitted = append(emitted, handedOut{real: plan, want: ref.plan, at: i})
			}
		default:
			e := b.Err()
			if isPlan {
				if plan != nil || perr == nil {
					return "misuse-not-reported", "plan:" + string(firstMisuse(seq, i)), fmt.Sprintf("%s: Plan() returned (%v, %v) after a misuse", where, plan != nil, perr)
				}
				if !ref.misuseAfterEmit && !mis {
					_ = mis
				}
			}
			if e == nil && !(isPlan && ref.misuseAfterEmit && !wasMisuse) {
				// a second Plan() is reported by its return value; every other misuse must be visible through Err()
				return "misuse-not-reported", string(firstMisuse(seq, i)), fmt.Sprintf("%s: Err() is nil after a misuse", where)
			}
			if !wasMisuse {
				firstErr = e
				if isPlan {
					firstErr = perr
				}
			} else if firstErr != nil {
				if e != nil && e.Error() != firstErr.Error() {
					return "first-error-not-sticky", stickyClass(ref), fmt.Sprintf("%s: Err() changed from %q to %q", where, firstErr, e)
				}
				if isPlan && perr.Error() != firstErr.Error() {
					return "first-error-not-sticky", "plan:" + stickyClass(ref), fmt.Sprintf("%s: Plan() returned %q, the first misuse was reported as %q", where, perr, firstErr)
				}
			}
		}
	}
	for _, h := range emitted {
		if !reflect.DeepEqual(h.real, h.want) {
			return "emitted-plan-changed-by-later-calls", planDiffClass(h.real, h.want), fmt.Sprintf("after %v: the plan handed out by call %d no longer equals what it was then: %s", seq, h.at, planDiffClass(h.real, h.want))
		}
	}
	// A correct, not yet emitted prefix must emit exactly the directly constructed plan.
	if !ref.misuse && !ref.emitted {
		step = len(seq)
		plan, perr := b.Plan()
		if perr != nil || plan == nil {
			return "error-without-misuse", "final-plan", fmt.Sprintf("after %v: Plan() returned (%v, %v)", seq, plan, perr)
		}
		if !reflect.DeepEqual(plan, ref.plan) {
			return "plan-differs-from-direct-construction", planDiffClass(plan, ref.plan), fmt.Sprintf("after %v: the emitted plan differs from the directly constructed one: %s", seq, planDiffClass(plan, ref.plan))
		}
	}
	return "", "", ""
}

func stickyClass(r *refBuilder) string {
	if r.misuseAfterEmit {
		return "after-emission"
	}
	if r.dead {
		return "after-failed-reset"
	}
	return "before-emission"
}

func panicClass(s string) string {
	switch {
	case strings.Contains(s, "nil pointer"):
		return "nil-pointer"
	case strings.Contains(s, "chain is empty"):
		return "chain-empty"
	case strings.Contains(s, "index out of range"):
		return "index"
	}
	if len(s) > 40 {
		s = s[:40]
	}
	return s
}

func firstMisuse(seq []bCall, upto int) bCall {
	r := newRef("plan")
	for i := 0; i <= upto && i < len(seq); i++ {
		if r.apply(seq[i], i) && seq[i] != "reset:blank" || (seq[i] == "reset:blank") {
			if r.misuse {
				return seq[i]
			}
		}
	}
	return "?"
}

// planDiffClass names the first structural difference.
func planDiffClass(a, b *workflow.Plan) string {
	if a == nil || b == nil {
		return "nil-plan"
	}
	if a.Name != b.Name || a.Descr != b.Descr {
		return "plan-name"
	}
	ck := func(x, y *workflow.Checks) bool { return reflect.DeepEqual(x, y) }
	if !ck(a.BypassChecks, b.BypassChecks) || !ck(a.PreChecks, b.PreChecks) || !ck(a.ContChecks, b.ContChecks) || !ck(a.PostChecks, b.PostChecks) || !ck(a.DeferredChecks, b.DeferredChecks) {
		return "plan-checks"
	}
	if len(a.Blocks) != len(b.Blocks) {
		return "block-count"
	}
	for i := range a.Blocks {
		x, y := a.Blocks[i], b.Blocks[i]
		if len(x.Sequences) != len(y.Sequences) {
			return "sequence-count"
		}
		if !ck(x.BypassChecks, y.BypassChecks) || !ck(x.PreChecks, y.PreChecks) || !ck(x.ContChecks, y.ContChecks) || !ck(x.PostChecks, y.PostChecks) || !ck(x.DeferredChecks, y.DeferredChecks) {
			return "block-checks"
		}
		for j := range x.Sequences {
			if !reflect.DeepEqual(x.Sequences[j], y.Sequences[j]) {
				return "sequence-content"
			}
		}
		if !reflect.DeepEqual(x, y) {
			return "block-fields"
		}
	}
	return "other"
}

// enumC20 explores call sequences breadth first: correct prefixes are merged by the abstract state of the reference
// builder; after the first misuse every extension by up to `tail` further calls is explored (stickiness), and a Reset
// leads back into the merged state space.
func enumC20(env *EnumEnv, it *WorkItem) *EnumResult {
	res := &EnumResult{Exhaustive: true}
	depth, tail := 6, 2
	if env.Tier == "thorough" {
		depth, tail = 8, 3
	}
	type node struct {
		seq  []bCall
		left int // calls still allowed after the first misuse (-1 = no misuse yet)
	}
	distinct := map[string]bool{}
	reported := map[string]bool{}
	idx := 0
	g := &budgetGuard{env: env, res: res}
	// Correct prefixes are extended in order of their length (merged by abstract state, so there are few); what follows a
	// first misuse is walked depth first and never stored - there are alphabet^tail sequences behind every misuse. A
	// Reset inside such a tail leads back to a correct prefix, possibly a longer one than the breadth-first order would
	// find for the same state: the shortest prefix per state wins, whenever it is found.
	pending := map[int][]node{0: {{seq: nil, left: -1}}}
	seenLen := map[string]int{}
	var visit func(parent []bCall, parentLeft int, c bCall)
	visit = func(parent []bCall, parentLeft int, c bCall) {
		if g.expired {
			return
		}
		seq := append(append(make([]bCall, 0, len(parent)+1), parent...), c)
		// the reference decides what kind of state this is
		ref := newRef("plan")
		for i, cc := range seq {
			ref.apply(cc, i)
		}
		left := parentLeft
		switch {
		case !ref.misuse:
			left = -1
		case parentLeft == -1:
			left = tail
		default:
			left = parentLeft - 1
		}
		idx++
		mine := idx%it.NShards == it.Shard
		// distinct cases: (abstract state reached, last call); counted in the shard the key hashes to
		dk := ref.key() + "<" + string(c)
		if int(hashStr(dk)%uint64(it.NShards)) == it.Shard && !distinct[dk] {
			distinct[dk] = true
			res.Distinct++
		}
		if mine && !g.over() {
			res.Evaluations++
			if rule, sig, msg := checkBuilderSeq(seq); rule != "" {
				k := rule + "|" + sig
				if !reported[k] {
					reported[k] = true
					res.Found = append(res.Found, &EnumFound{V: Violation{Property: "C20", Rule: rule, Signature: sig, Msg: msg}, Input: seq})
				}
			}
			if len(res.Samples) < 3 && len(seq) >= 5 && !ref.misuse {
				res.Samples = append(res.Samples, fmt.Sprint(seq))
			}
		}
		if (len(seq) >= depth && left == -1) || left == 0 || len(seq) >= depth+tail {
			return
		}
		if left == -1 {
			k := ref.key()
			if l, ok := seenLen[k]; ok && l <= len(seq) {
				return // an equivalent correct prefix that is not longer is (or will be) extended
			}
			seenLen[k] = len(seq)
			pending[len(seq)] = append(pending[len(seq)], node{seq: seq, left: -1})
			return
		}
		for _, c2 := range builderAlphabet {
			visit(seq, left, c2)
		}
	}
	states := 0
	for L := 0; L < depth && !g.expired; L++ {
		g.phase = fmt.Sprintf("extensions of the correct prefixes of length %d (and everything behind their first misuse)", L)
		done := map[string]bool{}
		for _, nd := range pending[L] {
			ref := newRef("plan")
			for i, cc := range nd.seq {
				ref.apply(cc, i)
			}
			k := ref.key()
			if L > 0 && (seenLen[k] < L || done[k]) {
				continue // a shorter prefix for the same state turned up later, or this length was already taken
			}
			done[k] = true
			states++
			for _, c := range builderAlphabet {
				visit(nd.seq, -1, c)
			}
		}
		delete(pending, L)
	}
	seenKey := seenLen
	_ = states
	res.Notes = append(res.Notes, fmt.Sprintf("depth %d for correct prefixes (merged by abstract builder state: %d states), %d further calls after the first misuse", depth, len(seenKey), tail))
	return res
}

func init() {
	register(&PropDef{
		ID:    "C20",
		Level: "exploration",
		Rule: "breadth-first enumeration of ALL call sequences over 28 call variants (AddChecks x 10 incl. nil / nil action / unknown kind (the declared zero value and a value outside the constants) / pre-filled, AddBlock x 3, AddSequence x 5, AddAction x 5, Up, Plan, Reset ok / with an option / blank) up to depth 6 (8): correct prefixes are merged by the abstract state of a reference builder " +
			"(cursor chain with filled check slots and child counts capped at 2, emitted flag), after the first misuse every extension by 2 (3) further calls is enumerated; each sequence runs on a fresh real builder and on the reference interpreter, compared after every call " +
			"(Err(), Plan() result, deep equality with the directly constructed plan, panics); distinct_nontrivial = distinct (abstract reference state reached, last call) pairs among the evaluated sequences",
		Assumptions: []string{"stickiness is checked for 2 (3) calls after the first misuse, not for arbitrarily long suffixes", "child counts above 2 are merged"},
		Items:       func(tier string) []WorkItem { return shardItems("C20", 16) },
		Enum:        enumC20,
		ReplayInput: func(env *EnumEnv, raw []byte) []*Violation {
			var seq []bCall
			if err := jsonUnmarshal(raw, &seq); err != nil {
				return []*Violation{{Property: "C20", Rule: "bad-input", Msg: err.Error()}}
			}
			if rule, sig, msg := checkBuilderSeq(seq); rule != "" {
				return []*Violation{{Property: "C20", Rule: rule, Signature: sig, Msg: msg}}
			}
			return nil
		},
	})
}
