package mc

import (
	"fmt"
	"strings"

	"github.com/element-of-surprise/coercion/workflow"
)

// C05: attempts.
type monC05 struct{}

func terminalOutcome(out string) bool {
	return out == OK || out == NilResp || out == Perm || out == PermWrap || out == WrongType || out == WrongNamed || out == Late || out == RespPerm || out == WrongTrans || out == WrongPerm
}

func (monC05) AtState(x *Exec) {
	from, to := newEvents(x, "c05")
	if from == to {
		return
	}
	h := NewHist(x, 0)
	for k := from; k < to; k++ {
		e := &h.Events[k]
		if e.Kind != "INV" || e.Gen != 0 {
			continue
		}
		oi := x.W.Objs[e.Path]
		if oi == nil || oi.Act == nil || oi.Group == "cont" {
			continue
		}
		cs := h.callsBefore(e.Path, k+1)
		if len(cs) > oi.Act.Retries+1 {
			x.Report(&Violation{Property: "C05", Rule: "too-many-invocations", Signature: "count",
				Msg: fmt.Sprintf("%s was invoked %d times with Retries=%d", e.Path, len(cs), oi.Act.Retries)})
		}
		if e.N >= 1 {
			// every earlier invocation is recorded as one attempt by the time the next one begins (read from the real vault)
			if p, err := x.ReadPlan(oi.Plan); err == nil {
				if st := View(p).Objs[e.Path]; st != nil && len(st.Att) != e.N {
					x.Report(&Violation{Property: "C05", Rule: "invocation-not-recorded-before-the-next", Signature: "count",
						Msg: fmt.Sprintf("invocation #%d of %s began while the stored action has %d attempts (one per earlier invocation = %d)", e.N, e.Path, len(st.Att), e.N)})
				}
			}
		}
		if len(cs) >= 2 {
			prev := cs[len(cs)-2]
			if !prev.Returned || prev.EndIdx > k {
				x.Report(&Violation{Property: "C05", Rule: "invoked-while-previous-attempt-in-flight", Signature: "overlap",
					Msg: fmt.Sprintf("invocation #%d of %s began while invocation #%d had neither returned nor been cancelled", e.N, e.Path, prev.N)})
			} else if !prev.CtxDone && terminalOutcome(prev.Out) {
				x.Report(&Violation{Property: "C05", Rule: "invoked-after-final-outcome", Signature: "after-final",
					Msg: fmt.Sprintf("%s was invoked again after invocation #%d returned %s", e.Path, prev.N, prev.Out)})
			}
		}
	}
}

func (monC05) AtEnd(x *Exec) {
	if x.Outcome != "done" {
		if x.Outcome == "hang" {
			h := NewHist(x, 0)
			x.Report(&Violation{Property: "C05", Rule: "plan-never-ended", Signature: hangCause(x, h), Msg: "the plan did not reach a terminal state"})
		}
		return
	}
	h := NewHist(x, 0)
	for pi := range x.Sc.Plans {
		p, err := x.ReadPlan(pi)
		if err != nil {
			continue
		}
		v := View(p)
		for path, oi := range x.W.Objs {
			if oi.Kind != "action" || oi.Plan != pi {
				continue
			}
			cs := h.Calls[path]
			st := v.Objs[path]
			if st == nil {
				continue
			}
			if oi.Group == "cont" {
				// a continuous check is run again and again and every run starts with an empty attempt list: what is stored
				// at the end is the record of the LAST run. Without retries a run is one invocation, and the response names
				// its invocation, so the stored attempt must be the last invocation's - not an earlier run's.
				if oi.Act == nil || oi.Act.Retries != 0 || len(cs) == 0 || len(st.Att) == 0 {
					continue
				}
				if last := cs[len(cs)-1]; !last.Returned || last.CtxDone {
					continue
				}
				cs = cs[len(cs)-1:]
			}
			if len(st.Att) != len(cs) {
				x.Report(&Violation{Property: "C05", Rule: "attempts-do-not-match-invocations", Signature: "count",
					Msg: fmt.Sprintf("%s was invoked %d times but has %d stored attempts", path, len(cs), len(st.Att))})
				continue
			}
			for i, c := range cs {
				a := st.Att[i]
				bad := func(format string, args ...any) {
					x.Report(&Violation{Property: "C05", Rule: "attempt-does-not-record-its-invocation", Signature: "attempt-" + c.Out,
						Msg: fmt.Sprintf("attempt %d of %s (invocation outcome %s, cancelled=%v): ", i, path, c.Out, c.CtxDone) + fmt.Sprintf(format, args...)})
				}
				if a.Start.After(a.End) {
					bad("start after end")
				}
				if c.CtxDone {
					// overran the timeout: a retryable timeout failure, nothing stored, context cancelled (that is how we know)
					if !a.HasErr || a.Permanent || a.HasResp {
						bad("a timed-out attempt must be a non-permanent error without response, got err=%v permanent=%v resp=%v", a.HasErr, a.Permanent, a.HasResp)
					}
					continue
				}
				switch c.Out {
				case OK, Late:
					r, isResp := a.Resp.(Resp)
					if a.HasErr || !a.HasResp || !isResp || r.Path != path || r.N != c.N {
						bad("want the plugin's own response {%s %d}, got err=%v resp=%#v", path, c.N, a.HasErr, a.Resp)
					}
				case NilResp:
					if a.HasErr || a.HasResp {
						bad("want no error and no response, got err=%v resp=%v", a.HasErr, a.HasResp)
					}
				case Perm, PermWrap:
					if !a.HasErr || !a.Permanent || a.HasResp {
						bad("want a permanent error, got err=%v permanent=%v resp=%v", a.HasErr, a.Permanent, a.HasResp)
					}
				case Trans, TransZero:
					if !a.HasErr || a.Permanent || a.HasResp {
						bad("want a transient error, got err=%v permanent=%v resp=%v", a.HasErr, a.Permanent, a.HasResp)
					}
				case RespPerm:
					// the response that came with the error may or may not be kept; the error must be
					if !a.HasErr || !a.Permanent {
						bad("want a permanent error, got err=%v permanent=%v", a.HasErr, a.Permanent)
					}
				case RespTrans:
					if !a.HasErr || a.Permanent {
						bad("want a transient error, got err=%v permanent=%v", a.HasErr, a.Permanent)
					}
				case WrongType, WrongNamed, WrongTrans, WrongPerm:
					if !a.HasErr || !a.Permanent || a.HasResp {
						bad("a wrong-typed response must fail the action permanently without storing the response, got err=%v permanent=%v resp=%v", a.HasErr, a.Permanent, a.HasResp)
					}
				}
			}
			if len(st.Att) > 0 {
				last := st.Att[len(st.Att)-1]
				if last.HasErr == (st.Status == workflow.Completed) {
					x.Report(&Violation{Property: "C05", Rule: "action-status-vs-final-attempt", Signature: "status",
						Msg: fmt.Sprintf("%s is %s but its final attempt has error=%v", path, st.Status, last.HasErr)})
				}
			}
		}
	}
}

// retryScripts enumerates all canonical outcome scripts for a retry budget: j retryable outcomes (j<=retries+1)
// followed, when j<=retries, by one final outcome.
func retryScripts(retries int, late bool) [][]string {
	retryable := []string{Trans, Overrun, RespTrans, TransZero}
	final := []string{OK, Perm, WrongType, NilResp, RespPerm, WrongTrans, WrongPerm, PermWrap, WrongNamed}
	if late {
		final = append(final, Late)
	}
	var out [][]string
	var rec func(prefix []string)
	rec = func(prefix []string) {
		if len(prefix) <= retries {
			for _, f := range final {
				out = append(out, append(append([]string{}, prefix...), f))
			}
		}
		if len(prefix) == retries+1 {
			out = append(out, append([]string{}, prefix...))
			return
		}
		for _, r := range retryable {
			rec(append(append([]string{}, prefix...), r))
		}
	}
	rec(nil)
	return out
}

// FamilyRetry: one scripted action as a sequence action (followed by a plain one) and as one of two parallel
// pre-check actions; retries 0..2 (3 in thorough); all canonical scripts; timeouts race with answers.
func FamilyRetry(tier string) []*Scenario {
	var out []*Scenario
	maxR := 2
	if tier == "thorough" {
		maxR = 3
	}
	for r := 0; r <= maxR; r++ {
		for _, script := range retryScripts(r, true) {
			name := strings.Join(script, "")
			act := ActSpec{Script: script, Retries: r}
			seq := PlanSpec{Blocks: []BlockSpec{{Seqs: []SeqSpec{Seq(act, A())}}}}
			out = append(out, &Scenario{Family: "F-retry", Name: fmt.Sprintf("retry-seq-r%d-%s", r, name), Plans: []PlanSpec{seq}, TimeoutRace: true, MaxTicks: 16})
			if r <= 2 {
				chk := PlanSpec{Pre: Chk(act, A()), Blocks: []BlockSpec{{Seqs: okSeqs(1, 1)}}}
				out = append(out, &Scenario{Family: "F-retry", Name: fmt.Sprintf("retry-chk-r%d-%s", r, name), Plans: []PlanSpec{chk}, TimeoutRace: true, MaxTicks: 16})
			}
		}
	}
	return out
}

func init() {
	register(&PropDef{
		ID:    "C05",
		Level: "model_checking",
		Rule: "family F-retry: one scripted action as a sequence action and as one of two parallel pre-check actions, Retries 0..2 (3), ALL canonical outcome scripts over {ok, nil-response, transient, permanent, wrong type, overrun, late answer after the timeout, well-typed response WITH a transient/permanent error, wrong-typed response WITH a transient/permanent error, permanent error wrapping a non-permanent cause, response of a different type with the same printed name} " +
			"(j retryable outcomes then one final outcome); the action timeout is 5 s and at every parked plugin call the explorer chooses between 'answer' and 'let the timer fire' (all combinations within the deviation bound), retry back-off timers are fake-clock ticks; " +
			"invocation rules are checked at every invocation, stored attempts (read from the real vault) are matched 1:1 against the invocations at the end; distinct_nontrivial = distinct states in which two or more logical threads were enabled",
		Assumptions: []string{"a free worker-pool runner always exists (64 runners)", "I/O granularity", "retry policy without jitter (RandomizationFactor 0)", "continuous-check actions are excluded (their attempts are reset on every run)"},
		NewMon:      func(sc *Scenario) Monitor { return monC05{} },
		Items: func(tier string) []WorkItem {
			var items []WorkItem
			b := 3
			if tier == "thorough" {
				b = 5
			}
			for _, sc := range FamilyRetry(tier) {
				items = append(items, exploreCap("C05", sc, b, false, 60))
			}
			for _, sc := range FamilyRetrySeq(tier) {
				items = append(items, explore("C05", sc, 1, true))
			}
			// "every invocation is recorded" for actions that are invoked many times: continuous checks, whose k-th run
			// differs from the earlier ones (passes, then fails)
			for _, sc := range FamilyCont(tier) {
				if strings.HasPrefix(sc.Name, "cont-min-") || strings.HasPrefix(sc.Name, "cont-plan-k") || strings.HasPrefix(sc.Name, "cont-block-k") {
					items = append(items, exploreCap("C05", sc, 1, false, 30))
				}
			}
			return items
		},
	})
}
