package mc

import (
	"fmt"
	"strings"

	"github.com/element-of-surprise/coercion/workflow"
)

// recoveryMode reports whether this execution is a restarted process (booted from a crash state).
func recoveryMode(x *Exec) (*CrashState, bool) {
	cs, ok := x.Mem["crashState"].(*CrashState)
	if msg, bad := x.Mem["crashReadMismatch"].(string); ok && bad && x.Mem["crashReadMismatchReported"] == nil {
		x.Mem["crashReadMismatchReported"] = true
		x.Report(&Violation{Rule: "durable-state-misread-at-restart", Signature: "reader", Msg: fmt.Sprintf("restart from %d durable writes: %s; the restarted engine decides on the misread state", cs.K, msg)})
	}
	return cs, ok
}

func crashView(x *Exec, pi int) *PlanView {
	v, _ := x.Mem[fmt.Sprintf("crashView:%d", pi)].(*PlanView)
	return v
}

// durableSuccess: the action's success was durable in the crash state.
func durableSuccess(o *ObjView) bool {
	if o == nil {
		return false
	}
	if o.Status == workflow.Completed {
		return true
	}
	if o.Status == workflow.Running && len(o.Att) > 0 {
		// an attempt is recorded only after its invocation returned, so a stored attempt without an error IS the
		// plugin's successful answer - whether or not its end time made it into the same write
		last := o.Att[len(o.Att)-1]
		return !last.HasErr
	}
	return false
}

// C09: after a crash, durably finished work is never executed again.
type monC09 struct{}

// storeRecoveryFirst: a store that implements storage.Recovery "must do some recovery operation before it can be used
// after a failure" (CosmosDB reconciles its search index there, and the engine's own recovery picks the plans to resume
// from exactly that index): the engine must not search, read or write through the vault before that pass has returned.
func storeRecoveryFirst(x *Exec, prop string) {
	if x.GV == nil || x.Mem["recfirst"] != nil {
		return
	}
	if op := x.GV.UsedBeforeRecovery(); op != "" {
		x.Mem["recfirst"] = true
		x.Report(&Violation{Property: prop, Rule: "store-used-before-its-recovery-pass", Signature: "startup-order",
			Msg: fmt.Sprintf("the engine issued %q through the vault before the store's own recovery pass (storage.Recovery) had run: what it resumes is decided on a store that was not reconciled yet", op)})
	}
}

func (monC09) AtState(x *Exec) {
	if _, ok := recoveryMode(x); !ok {
		return
	}
	storeRecoveryFirst(x, "C09")
	from, to := newEvents(x, "c09")
	if from == to {
		return
	}
	w := x.W
	w.mu.Lock()
	evs := w.Events[from:to:to]
	w.mu.Unlock()
	for i := range evs {
		e := &evs[i]
		if e.Kind != "INV" {
			continue
		}
		oi := w.Objs[e.Path]
		if oi == nil {
			continue
		}
		cv := crashView(x, oi.Plan)
		if cv == nil {
			continue
		}
		rep := func(rule, sig, format string, a ...any) {
			x.Report(&Violation{Property: "C09", Rule: rule, Signature: sig, Msg: fmt.Sprintf("recovery invoked %s: ", e.Path) + fmt.Sprintf(format, a...)})
		}
		planPath := fmt.Sprintf("P%d", oi.Plan)
		if ps := cv.Objs[planPath]; ps != nil && terminal(ps.Status) {
			rep("finished-plan-re-run", "plan", "the plan was durably %s", ps.Status)
		}
		if oi.Block >= 0 {
			bp := fmt.Sprintf("%s/B%d", planPath, oi.Block)
			// The engine stores a block as Failed before its deferred checks run (they are part of ending it), so after a
			// crash in between those checks are still due; everything else of a finished block must stay silent.
			if bs := cv.Objs[bp]; bs != nil && terminal(bs.Status) && !(bs.Status == workflow.Failed && oi.Group == "def" && oi.Scope == bp) {
				rep("finished-block-re-run", "block", "%s was durably %s", bp, bs.Status)
			}
		}
		if isSeqAction(oi) {
			st := cv.Objs[e.Path]
			if ss := cv.Objs[oi.Parent]; ss != nil && terminal(ss.Status) {
				rep("finished-sequence-re-run", "sequence", "%s was durably %s", oi.Parent, ss.Status)
			}
			if durableSuccess(st) {
				rep("durably-successful-action-invoked-again", "action", "its success was durable (stored %s with %d attempts, the last one without error)", st.Status, len(st.Att))
			} else if st != nil && st.Status == workflow.Failed {
				rep("durably-failed-action-invoked-again", "action", "it was durably Failed")
			}
		}
	}
}

func (monC09) AtEnd(x *Exec) {}

// C10: recovery converges to the same consistent terminal outcome.
type monC10 struct{}

func (monC10) AtState(x *Exec) {}

func (monC10) AtEnd(x *Exec) {
	cs, ok := recoveryMode(x)
	if !ok {
		return
	}
	h := NewHist(x, -1)
	if x.Outcome != "done" {
		x.Report(&Violation{Property: "C10", Rule: "recovery-did-not-converge", Signature: x.Outcome + ":" + hangCause(x, h),
			Msg: fmt.Sprintf("after the crash (%d durable writes) the restarted engine ended in outcome %q instead of a terminal plan", cs.K, x.Outcome)})
		return
	}
	pure := true
	for _, oi := range x.W.Objs {
		if oi.Act != nil && !oi.Act.Pure() {
			pure = false
		}
	}
	allResumed := true
	for pi := range x.Sc.Plans {
		cv := crashView(x, pi)
		planPath := fmt.Sprintf("P%d", pi)
		if cv == nil || cv.Objs[planPath] == nil {
			continue
		}
		was := cv.Objs[planPath].Status
		if was == workflow.NotStarted {
			allResumed = false
			continue
		}
		p, err := x.ReadPlan(pi)
		if err != nil {
			x.Report(&Violation{Property: "C10", Rule: "plan-unreadable-after-recovery", Signature: "read", Msg: err.Error()})
			continue
		}
		v := View(p)
		for _, f := range Consistency(x, h, v, pi) {
			x.Report(&Violation{Property: "C10", Rule: f[0], Signature: "after-recovery", Msg: fmt.Sprintf("after recovery from %d durable writes: %s", cs.K, f[1])})
		}
		// deferred checks of entered scopes have run (before or after the crash)
		for _, scope := range x.scopes() {
			so := x.W.Objs[scope]
			if so == nil || so.Plan != pi {
				continue
			}
			by, _, _, _, def := x.scopeChecks(scope)
			if def == nil {
				continue
			}
			st := v.Objs[scope]
			if st == nil || st.Status == workflow.NotStarted {
				continue
			}
			if by != nil {
				if bo := v.Objs[scope+"/By"]; bo != nil && bo.Status == workflow.Completed {
					continue
				}
			}
			if so.Kind == "block" {
				if pby := v.Objs[planPath+"/By"]; pby != nil && pby.Status == workflow.Completed {
					continue
				}
			}
			if d := v.Objs[scope+"/Def"]; d != nil && !terminal(d.Status) {
				x.Report(&Violation{Property: "C10", Rule: "deferred-checks-not-run-after-recovery", Signature: "def",
					Msg: fmt.Sprintf("%s was entered (stored %s) but its deferred checks are stored %s after recovery", scope, st.Status, d.Status)})
			}
		}
	}
	if ref, _ := crashRef.Load(x.Sc.Name); pure && allResumed {
		if r, _ := ref.(string); r != "" {
			if got := outcomeDigest(x); got != r {
				x.Report(&Violation{Property: "C10", Rule: "outcome-differs-from-uninterrupted-run", Signature: "differential",
					Msg: fmt.Sprintf("plugin outcomes are a function of the action alone; uninterrupted run: %s after crash at %d durable writes and recovery: %s", r, cs.K, got)})
			}
		}
	}
}

// FamilyCrash: plan shapes whose every storage write is a crash point.
func FamilyCrash(tier string) []*Scenario {
	var out []*Scenario
	add := func(name string, ps PlanSpec) {
		out = append(out, &Scenario{Family: "F-crash", Name: "crash-" + name, Plans: []PlanSpec{ps}, Crash: true, MaxTicks: 8})
	}
	for nb := 1; nb <= 2; nb++ {
		for nseq := 1; nseq <= 3; nseq++ {
			for nact := 1; nact <= 2; nact++ {
				if nseq == 3 && nact == 2 && tier != "thorough" {
					continue
				}
				for _, conc := range []int{1, 2} {
					if conc > nseq {
						continue
					}
					for _, tol := range []int{0, 1} {
						if tol >= nseq {
							continue
						}
						for fail := -1; fail < nseq*nact; fail++ {
							seqs := okSeqs(nseq, nact)
							if fail >= 0 {
								seqs[fail/nact].Actions[fail%nact] = A(Perm)
							}
							ps := PlanSpec{Blocks: []BlockSpec{{Seqs: seqs, Conc: conc, Tol: tol}}}
							if nb == 2 {
								ps.Blocks = append(ps.Blocks, BlockSpec{Seqs: okSeqs(1, 1), Conc: 1})
							}
							add(fmt.Sprintf("b%d-n%d-a%d-c%d-t%d-f%d", nb, nseq, nact, conc, tol, fail), ps)
						}
					}
				}
			}
		}
	}
	// two failing sequences against the tolerance
	for _, tol := range []int{0, 1} {
		for _, conc := range []int{1, 2} {
			add(fmt.Sprintf("2fail-t%d-c%d", tol, conc), PlanSpec{Blocks: []BlockSpec{{Conc: conc, Tol: tol, Seqs: []SeqSpec{Seq(A(Perm)), Seq(A(Perm)), Seq(A())}}, {Seqs: okSeqs(1, 1)}}})
		}
	}
	// one check group per level, passing and failing
	for _, g := range groupNames {
		for _, level := range []string{"plan", "block"} {
			for _, fails := range []bool{false, true} {
				ps := PlanSpec{Blocks: []BlockSpec{{Seqs: okSeqs(2, 1), Conc: 2}, {Seqs: okSeqs(1, 1)}}}
				c := Chk(A())
				if fails {
					c = Chk(A(Perm))
				}
				if level == "plan" {
					setGroup(&ps.Bypass, &ps.Pre, &ps.Cont, &ps.Post, &ps.Def, g, c)
				} else {
					b := &ps.Blocks[0]
					setGroup(&b.Bypass, &b.Pre, &b.Cont, &b.Post, &b.Def, g, c)
				}
				add(fmt.Sprintf("chk-%s-%s-fail%v", level, g, fails), ps)
			}
		}
	}
	// a bypassed scope that has every other check group as well: whatever the crash point, nothing of them may run
	add("chk-plan-bypassed-all", PlanSpec{Bypass: Chk(A(), A()), Pre: Chk(A()), Cont: Chk(A()), Post: Chk(A()), Def: Chk(A()), Blocks: []BlockSpec{{Seqs: okSeqs(1, 1)}}})
	add("chk-block-bypassed-all", PlanSpec{Def: Chk(A()), Blocks: []BlockSpec{{Bypass: Chk(A(), A()), Pre: Chk(A()), Cont: Chk(A()), Post: Chk(A()), Def: Chk(A()), Seqs: okSeqs(1, 1)}, {Seqs: okSeqs(1, 1)}}})
	// everything at once
	add("all-groups", PlanSpec{Bypass: Chk(A(Perm)), Pre: Chk(A()), Cont: Chk(A()), Post: Chk(A()), Def: Chk(A()),
		Blocks: []BlockSpec{{Bypass: Chk(A(Perm)), Pre: Chk(A()), Cont: Chk(A()), Post: Chk(A()), Def: Chk(A()), Seqs: okSeqs(2, 1), Conc: 2}, {Seqs: okSeqs(1, 1)}}})
	add("pre-ok-cont-fails", PlanSpec{Pre: Chk(A()), Cont: Chk(A(Perm)), Def: Chk(A()), Blocks: []BlockSpec{{Seqs: okSeqs(1, 1)}}})
	add("block-pre-ok-cont-fails", PlanSpec{Blocks: []BlockSpec{{Pre: Chk(A()), Cont: Chk(A(Perm)), Def: Chk(A()), Seqs: okSeqs(1, 1)}}})
	// failure routes with deferred checks at both levels (they must still run when the crash falls before or inside them)
	add("ppre-fails-def", PlanSpec{Pre: Chk(A(Perm)), Def: Chk(A(), A()), Blocks: []BlockSpec{{Def: Chk(A()), Seqs: okSeqs(1, 1)}}})
	add("bpre-fails-def", PlanSpec{Def: Chk(A(), A()), Blocks: []BlockSpec{{Pre: Chk(A(Perm)), Def: Chk(A(), A()), Seqs: okSeqs(1, 1)}, {Seqs: okSeqs(1, 1)}}})
	add("seq-fails-def", PlanSpec{Post: Chk(A()), Def: Chk(A()), Blocks: []BlockSpec{{Post: Chk(A()), Def: Chk(A(), A()), Conc: 2, Seqs: []SeqSpec{Seq(A(Perm)), Seq(A(), A())}}, {Seqs: okSeqs(1, 1)}}})
	add("bpost-fails-def", PlanSpec{Def: Chk(A()), Blocks: []BlockSpec{{Post: Chk(A(Perm)), Def: Chk(A()), Seqs: okSeqs(1, 1)}}})
	add("bdef-fails", PlanSpec{Def: Chk(A()), Blocks: []BlockSpec{{Def: Chk(A(), A(Perm)), Seqs: okSeqs(1, 1)}, {Seqs: okSeqs(1, 1)}}})
	add("pcont-fails-def", PlanSpec{Pre: Chk(A()), Cont: Chk(A(Perm)), Def: Chk(A()), Blocks: []BlockSpec{{Def: Chk(A()), Seqs: okSeqs(1, 1)}}})
	// a later run of a continuous check in flight at the crash: the group is still recorded as Completed from its previous
	// run while its action is Running again without an attempt (slow plugins: time passes while the action executes)
	for _, lv := range []string{"block", "plan"} {
		ps := PlanSpec{Blocks: []BlockSpec{{Seqs: []SeqSpec{Seq(A(), A())}, Conc: 1}}}
		if lv == "block" {
			ps.Blocks[0].Cont = ChkD(2, A())
		} else {
			ps.Cont = ChkD(2, A())
		}
		out = append(out, &Scenario{Family: "F-crash", Name: "crash-cont-rerun-" + lv, Plans: []PlanSpec{ps}, Crash: true, Time: true, SlowPlugins: true, MaxTicks: 3})
	}
	// a block whose continuous check has an unpolled pass AND a later pass in flight when the block ends (minimal plan;
	// needs two deviations in the first run, see crashItems)
	out = append(out, &Scenario{Family: "F-crash", Name: "crash-cont-inflight-at-blockend", Crash: true, Time: true, SlowPlugins: true, MaxTicks: 3,
		Plans: []PlanSpec{{Blocks: []BlockSpec{{Cont: ChkD(2, A()), Seqs: []SeqSpec{Seq(A())}, Conc: 1}}}}})
	// retries: the attempt log is what recovery interprets
	add("retry-t-ok", PlanSpec{Blocks: []BlockSpec{{Seqs: []SeqSpec{Seq(AR(1, Trans, OK), A())}}}})
	// a retryable error that carries no detail at all: the stored attempt must still say "failed" after the restart
	add("retry-tz", PlanSpec{Blocks: []BlockSpec{{Seqs: []SeqSpec{Seq(AR(1, TransZero), A())}}}})
	add("retry-tz-ok", PlanSpec{Blocks: []BlockSpec{{Seqs: []SeqSpec{Seq(AR(2, TransZero, TransZero, OK), A())}}}})
	add("retry-ok-r1", PlanSpec{Blocks: []BlockSpec{{Conc: 2, Seqs: []SeqSpec{Seq(AR(1, OK), A()), Seq(AR(3, Trans, OK))}}}})
	return out
}

func crashItems(prop, tier string, scs []*Scenario) []WorkItem {
	var items []WorkItem
	for _, sc := range scs {
		it := WorkItem{Prop: prop, Kind: "explore", Scenario: sc, Opts: ExploreOpts{FreeSwitch: false, MaxSeconds: 120}, Args: map[string]int{"first": 1, "rec": 1, "crashes": 1}}
		if tier == "thorough" {
			it.Opts.MaxSeconds = 1200
			it.Opts.FreeSwitch = true
			it.Args = map[string]int{"first": 1, "rec": 1, "crashes": 2}
		} else if sc.Name == "crash-cont-inflight-at-blockend" {
			it.Args = map[string]int{"first": 2, "rec": 1, "crashes": 1}
		} else if twoCrashQuick(sc.Name) {
			// the smallest shapes get the second crash in the quick tier too (every durable state of every recovery
			// run is a second crash point): this is where the thorough tier found five recovery defects
			it.Args = map[string]int{"first": 1, "rec": 1, "crashes": 2}
		}
		items = append(items, it)
	}
	return items
}

// asProperty runs another property's monitor and files what it reports under this property.
type asProperty struct {
	inner Monitor
	prop  string
}

func (a asProperty) relabel(x *Exec, from int) {
	for _, v := range x.Violations[from:] {
		v.Property = a.prop
	}
}
func (a asProperty) AtState(x *Exec) { n := len(x.Violations); a.inner.AtState(x); a.relabel(x, n) }
func (a asProperty) AtEnd(x *Exec)   { n := len(x.Violations); a.inner.AtEnd(x); a.relabel(x, n) }

func twoCrashQuick(name string) bool {
	name = strings.TrimSuffix(strings.TrimSuffix(name, "-aged"), "-live")
	switch name {
	case "crash-b1-n1-a1-c1-t0-f-1", "crash-b1-n1-a1-c1-t0-f0", "crash-b2-n1-a1-c1-t0-f-1", "crash-b1-n2-a1-c1-t0-f1", "crash-b1-n2-a1-c1-t1-f0",
		"crash-b1-n2-a1-c2-t0-f0", "crash-chk-plan-pre-failtrue", "crash-chk-block-pre-failtrue", "crash-chk-block-def-failtrue", "crash-chk-plan-def-failfalse", "crash-retry-t-ok":
		return true
	}
	return false
}

const crashRule = "family F-crash (1-2 blocks, 1-3 sequences x 1-2 actions, c in {1,2}, t in {0,1}, <=1 failing action at every position, two failing sequences against the tolerance, each check group at each level passing/failing, all groups, retried actions); " +
	"first run explored under the deviation bound; EVERY reachable durable state (= every prefix of the serialised write sequence of every explored execution) is a crash point; crash states are de-duplicated by canonical durable content; " +
	"each is rebuilt in a fresh store through the public Create/Update* API and a new Workstream recovers it, explored under the deviation bound; in the thorough tier (and for eleven of the smallest shapes in the quick tier) every durable state of every recovery run is a second crash point; " +
	"distinct_nontrivial = distinct crash states in which at least one object is durably Running"

func init() {
	register(&PropDef{
		ID: "C09", Level: "model_checking", Rule: crashRule,
		Assumptions: []string{"process death only: the durable state is Create plus a prefix of the completed single-row updates (no torn pages, no power loss)", "64-runner pool, I/O granularity", "the restarted process sees fresh ids: objects are identified by their path in the plan"},
		NewMon:      func(sc *Scenario) Monitor { return monC09{} },
		Items:       func(tier string) []WorkItem { return crashItems("C09", tier, FamilyCrash(tier)) },
	})
	register(&PropDef{
		ID: "C10", Level: "model_checking", Rule: crashRule + "; the uninterrupted outcome of the same scenario is the differential oracle when every script is constant; cross-validation against a REAL process kill: a child process runs a plan on a file-backed store under strace fault injection (SIGKILL at every write-class system call), a second process recovers it, and the same predicates are evaluated (see notes); plus stores with two to four plans Running at once, stale ones among live ones",
		Assumptions: []string{"process death only: the durable state is Create plus a prefix of the completed single-row updates (no torn pages, no power loss)", "64-runner pool, I/O granularity", "plan outcome = status and failure reason of the plan"},
		NewMon: func(sc *Scenario) Monitor {
			if len(sc.BootStates) > 0 {
				return asProperty{inner: monC11{}, prop: "C10"} // several Running plans found at start-up: all live ones resumed, no hang
			}
			return monC10{}
		},
		Items: func(tier string) []WorkItem {
			items := append(crashItems("C10", tier, FamilyCrash(tier)), realKillItems(tier)...)
			// several plans Running at the crash (more than the store has connections; stale ones among live ones)
			for _, sc := range FamilyBoot(tier) {
				if strings.HasPrefix(sc.Name, "boot-many-") {
					items = append(items, explore("C10", sc, 1, false))
				}
			}
			return items
		},
		Enum: enumRealKill,
	})
}
