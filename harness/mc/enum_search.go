package mc

import (
	"context"
	"fmt"
	"math"
	"sort"
	"strings"
	"testing"
	"testing/synctest"
	"time"

	"github.com/element-of-surprise/coercion/workflow"
	"github.com/element-of-surprise/coercion/workflow/storage"
	"github.com/google/uuid"
	"github.com/gostdlib/base/concurrency/worker"
	bctx "github.com/gostdlib/base/context"
)

// C15: Exists, Search, List. Every store configuration runs inside its own bubble, so a stream that is never closed
// leaves its consumer durably blocked, which synctest.Wait detects exactly (no wall-clock timeout).

var searchStatuses = []workflow.Status{workflow.NotStarted, workflow.Running, workflow.Completed, workflow.Failed}

// searchConfig: plan i has status cfg[i]%4 and group cfg[i]/4 (0,1).
type searchConfig struct {
	Vault string `json:"vault"`
	Plans []int  `json:"plans"`
}

type modelPlan struct {
	id, group uuid.UUID
	name      string
	status    workflow.Status
	submit    time.Time
}

type searchQuery struct {
	Kind     string `json:"kind"`               // search list exists
	IDs      []int  `json:"ids,omitempty"`      // plan indexes; -1 = unknown id
	Groups   []int  `json:"groups,omitempty"`   // 0,1 = the two groups; 2 = unknown group
	Statuses []int  `json:"statuses,omitempty"` // indexes into searchStatuses
	Limit    int    `json:"limit,omitempty"`
	Exists   int    `json:"exists,omitempty"` // plan index; -1 unknown; -2 deleted
}

func (q searchQuery) String() string {
	switch q.Kind {
	case "list":
		return fmt.Sprintf("List(%d)", q.Limit)
	case "exists":
		return fmt.Sprintf("Exists(%d)", q.Exists)
	}
	return fmt.Sprintf("Search(ids=%v groups=%v statuses=%v)", q.IDs, q.Groups, q.Statuses)
}

func searchQueries(n int) []searchQuery {
	var out []searchQuery
	idSets := [][]int{nil, {-1}}
	if n >= 1 {
		idSets = append(idSets, []int{0}, []int{0, -1})
	}
	if n >= 2 {
		idSets = append(idSets, []int{0, 1}, []int{n - 1})
	}
	groupSets := [][]int{nil, {0}, {0, 1}, {2}, {1, 2}}
	statusSets := [][]int{nil, {1}, {1, 2}, {0, 3}, {2}}
	for _, ids := range idSets {
		for _, gs := range groupSets {
			for _, ss := range statusSets {
				out = append(out, searchQuery{Kind: "search", IDs: ids, Groups: gs, Statuses: ss})
			}
		}
	}
	for i := -2; i < n; i++ {
		out = append([]searchQuery{{Kind: "exists", Exists: i}}, out...)
	}
	for l := 0; l <= n+1; l++ {
		out = append(out, searchQuery{Kind: "list", Limit: l})
	}
	// the consumer's context is cancelled after the first entry has been read: the stream must still end
	out = append(out, searchQuery{Kind: "search-cancel", Groups: []int{0, 1}}, searchQuery{Kind: "search-cancel", Statuses: []int{0, 1, 2, 3}}, searchQuery{Kind: "list-cancel"})
	return out
}

type streamResult struct {
	items  []storage.ListResult
	errs   []error
	closed bool
}

// consume reads a stream to its end in its own goroutine; the caller decides with synctest.Wait whether it ended.
func consume(ch chan storage.Stream[storage.ListResult]) *streamResult {
	r := &streamResult{}
	go func() {
		for s := range ch {
			if s.Err != nil {
				r.errs = append(r.errs, s.Err)
				continue
			}
			r.items = append(r.items, s.Result)
		}
		r.closed = true
	}()
	return r
}

// consumeCancel reads one entry, cancels the context the query was issued with, and keeps draining.
func consumeCancel(ch chan storage.Stream[storage.ListResult], cancel context.CancelFunc) *streamResult {
	r := &streamResult{}
	go func() {
		first := true
		for s := range ch {
			if first {
				first = false
				cancel()
			}
			if s.Err != nil {
				r.errs = append(r.errs, s.Err)
				continue
			}
			r.items = append(r.items, s.Result)
		}
		if first {
			cancel()
		}
		r.closed = true
	}()
	return r
}

func refSearch(model []modelPlan, q searchQuery, groups [3]uuid.UUID) []modelPlan {
	var out []modelPlan
	for _, m := range model {
		ok := true
		if len(q.IDs) > 0 {
			ok = false
			for _, i := range q.IDs {
				if i >= 0 && i < len(model) && model[i].id == m.id {
					ok = true
				}
			}
		}
		if ok && len(q.Groups) > 0 {
			ok = false
			for _, g := range q.Groups {
				if groups[g] == m.group {
					ok = true
				}
			}
		}
		if ok && len(q.Statuses) > 0 {
			ok = false
			for _, s := range q.Statuses {
				if searchStatuses[s] == m.status {
					ok = true
				}
			}
		}
		if ok {
			out = append(out, m)
		}
	}
	sort.SliceStable(out, func(i, j int) bool { return out[i].submit.After(out[j].submit) })
	return out
}

func compareResults(got []storage.ListResult, want []modelPlan) string {
	var g, w []string
	for _, r := range got {
		g = append(g, r.Name)
	}
	for _, m := range want {
		w = append(w, m.name)
	}
	if strings.Join(g, ",") != strings.Join(w, ",") {
		return fmt.Sprintf("returned [%s], want [%s] (newest submission first)", strings.Join(g, ","), strings.Join(w, ","))
	}
	for i, r := range got {
		m := want[i]
		if r.ID != m.id || r.GroupID != m.group || r.State == nil || r.State.Status != m.status || !r.SubmitTime.Equal(m.submit) {
			st := "nil"
			if r.State != nil {
				st = r.State.Status.String()
			}
			return fmt.Sprintf("entry %s: id/group/status/submit %s %s %s %s, want %s %s %s %s", m.name, r.ID, r.GroupID, st, r.SubmitTime.Format(time.RFC3339Nano), m.id, m.group, m.status, m.submit.Format(time.RFC3339Nano))
		}
	}
	return ""
}

// compareAsSets is the comparison for the CosmosDB fake, which evaluates neither ORDER BY nor (with a limit) which
// entries come first: the returned entries must be distinct, each equal to its model plan, and - without a limit -
// exactly the wanted set; with a limit exactly min(limit, n) of them.
func compareAsSets(got []storage.ListResult, want []modelPlan, limit int) string {
	byName := map[string]modelPlan{}
	for _, m := range want {
		byName[m.name] = m
	}
	seen := map[string]bool{}
	for _, r := range got {
		m, ok := byName[r.Name]
		if !ok {
			return fmt.Sprintf("entry %q was returned but is not among the wanted plans", r.Name)
		}
		if seen[r.Name] {
			return fmt.Sprintf("entry %q was returned twice", r.Name)
		}
		seen[r.Name] = true
		if r.ID != m.id || r.GroupID != m.group || r.State == nil || r.State.Status != m.status || !r.SubmitTime.Equal(m.submit) {
			return fmt.Sprintf("entry %s differs from the stored plan (id/group/status/submit time)", m.name)
		}
	}
	n := len(want)
	if limit > 0 && limit < n {
		n = limit
	}
	if len(got) != n {
		return fmt.Sprintf("returned %d entries, want %d", len(got), n)
	}
	return ""
}

// checkSearchConfig runs every query against one store configuration. only != nil restricts to one query (replay).
func checkSearchConfig(t *testing.T, cfg searchConfig, only *searchQuery) (found []*EnumFound, queries int) {
	add := func(q searchQuery, rule, sig, msg string) {
		for _, f := range found {
			if f.V.Rule == rule && f.V.Signature == sig {
				return
			}
		}
		found = append(found, &EnumFound{V: Violation{Property: "C15", Rule: rule, Signature: sig, Msg: fmt.Sprintf("%s plans=%v %s: %s", cfg.Vault, cfg.Plans, q, msg)},
			Input: map[string]any{"config": cfg, "query": q}})
	}
	weak := false // CosmosDB over its fake: only what the fake evaluates is compared (see compareAsSets)
	defer func() {
		if r := recover(); r != nil {
			msg := fmt.Sprint(r)
			if strings.Contains(msg, "deadlock: main bubble goroutine has exited") {
				return // a consumer of a never-closed stream is leaked with the bubble (already reported)
			}
			add(searchQuery{}, "search-panicked", cfg.Vault, msg)
		}
	}()
	synctest.Test(t, func(t *testing.T) {
		pool, err := worker.New(context.Background(), "c15", worker.WithSize(16))
		if err != nil {
			panic(err)
		}
		worker.Set(pool)
		ctx := bctx.Background()
		f := factoryByName(cfg.Vault)
		weak = cfg.Vault != "sqlite"
		reg := storageRegistry()
		v, err := f.new(ctx, reg)
		if err != nil {
			panic(err)
		}
		groups := [3]uuid.UUID{uuid.MustParse("01890000-0000-7000-8000-0000000000a0"), uuid.MustParse("01890000-0000-7000-8000-0000000000a1"), uuid.MustParse("01890000-0000-7000-8000-0000000000a2")}
		var model []modelPlan
		perm := []int{2, 0, 3, 1}
		for i, c := range cfg.Plans {
			sh := storeShape{Blocks: 1, Seqs: 1, Actions: 1, Variant: 0}
			p := sh.build()
			p.Name = fmt.Sprintf("p%d", i)
			p.GroupID = groups[c/4]
			p.State.Status = searchStatuses[c%4]
			p.SubmitTime = baseTime.Add(time.Duration(perm[i%4]) * time.Hour).Add(time.Duration(i) * time.Nanosecond)
			if err := v.Create(ctx, p); err != nil {
				panic(fmt.Sprintf("create: %v", err))
			}
			model = append(model, modelPlan{id: p.ID, group: p.GroupID, name: p.Name, status: p.State.Status, submit: p.SubmitTime})
		}
		// one more plan that is created and deleted again
		del := storeShape{Blocks: 1, Seqs: 1, Actions: 1}.build()
		del.Name = "deleted"
		del.GroupID = groups[0]
		del.State.Status = workflow.Running
		del.SubmitTime = baseTime.Add(10 * time.Hour)
		if err := v.Create(ctx, del); err != nil {
			panic(err)
		}
		if err := v.Delete(ctx, del.ID); err != nil {
			add(searchQuery{Kind: "exists", Exists: -2}, "delete-failed", cfg.Vault, err.Error())
			return
		}
		// and one whose Create FAILS (a request that cannot be encoded, in its last action): it was never created, so it
		// must not exist, must not be listed and must not be found; the reference model simply does not contain it
		refused := storeShape{Blocks: 1, Seqs: 1, Actions: 2}.build()
		refused.Name = "refused"
		refused.GroupID = groups[1]
		refused.State.Status = workflow.Running
		refused.SubmitTime = baseTime.Add(11 * time.Hour)
		refused.Blocks[0].Sequences[0].Actions[1].Req = SReq{Arg: "x", F: math.NaN()}
		if err := v.Create(ctx, refused); err == nil {
			// the store took it (a store is free to): then it is a live plan like any other
			model = append(model, modelPlan{id: refused.ID, group: refused.GroupID, name: refused.Name, status: refused.State.Status, submit: refused.SubmitTime})
			refused = nil
		}
		if refused != nil {
			queries++
			if ok, err := v.Exists(ctx, refused.ID); ok && err == nil {
				add(searchQuery{Kind: "exists", Exists: -3}, "exists-wrong", cfg.Vault, "Exists is true for a plan whose Create failed (the plan was never created)")
			}
		}
		unknownID := uuid.MustParse("01890000-0000-7000-8000-00000000dead")
		qs := searchQueries(len(cfg.Plans))
		if only != nil {
			qs = []searchQuery{*only}
		}
		for _, q := range qs {
			queries++
			switch q.Kind {
			case "exists":
				id := unknownID
				want := false
				switch {
				case q.Exists == -2:
					id = del.ID
				case q.Exists >= 0:
					id, want = model[q.Exists].id, true
				}
				got, err := v.Exists(ctx, id)
				if err != nil {
					add(q, "exists-failed", cfg.Vault, err.Error())
				} else if got != want {
					add(q, "exists-wrong", fmt.Sprintf("%s:want-%v", cfg.Vault, want), fmt.Sprintf("Exists returned %v, want %v", got, want))
				}
			case "list":
				if weak && q.Limit > 0 {
					queries--
					continue // the fake panics on the int-typed @limit parameter the reader passes (it expects int64): test double, not decidable
				}
				ch, err := v.List(ctx, q.Limit)
				if err != nil {
					add(q, "list-failed", cfg.Vault, err.Error())
					continue
				}
				r := consume(ch)
				synctest.Wait()
				if !r.closed {
					add(q, "stream-never-closed", cfg.Vault+":list", "the result stream of List was never closed: a consumer ranging over it blocks for ever")
					return
				}
				want := refSearch(model, searchQuery{}, groups)
				if weak {
					if len(r.errs) > 0 {
						add(q, "list-stream-error", cfg.Vault, r.errs[0].Error())
					} else if d := compareAsSets(r.items, want, q.Limit); d != "" {
						add(q, "list-wrong", cfg.Vault+":set", d)
					}
					continue
				}
				if q.Limit > 0 && len(want) > q.Limit {
					want = want[:q.Limit]
				}
				if len(r.errs) > 0 {
					add(q, "list-stream-error", cfg.Vault, r.errs[0].Error())
				} else if d := compareResults(r.items, want); d != "" {
					add(q, "list-wrong", cfg.Vault+":"+diffClass(d), d)
				}
			case "search-cancel", "list-cancel":
				if weak && q.Kind == "search-cancel" {
					queries--
					continue // group/status filters: not evaluated by the fake
				}
				cctx, cancel := context.WithCancel(ctx)
				var ch chan storage.Stream[storage.ListResult]
				var err error
				if q.Kind == "list-cancel" {
					ch, err = v.List(cctx, 0)
				} else {
					fl := storage.Filters{}
					for _, g := range q.Groups {
						fl.ByGroupIDs = append(fl.ByGroupIDs, groups[g])
					}
					for _, st := range q.Statuses {
						fl.ByStatus = append(fl.ByStatus, searchStatuses[st])
					}
					ch, err = v.Search(cctx, fl)
				}
				if err != nil {
					cancel()
					add(q, "search-failed", cfg.Vault+":cancel", err.Error())
					continue
				}
				r := consumeCancel(ch, cancel)
				synctest.Wait()
				if !r.closed {
					add(q, "stream-never-closed", cfg.Vault+":"+q.Kind, "the context was cancelled after the first entry had been read and the result stream was never closed afterwards")
					return
				}
				want := refSearch(model, searchQuery{}, groups)
				if len(r.items) > len(want) {
					add(q, "search-wrong", cfg.Vault+":cancel", fmt.Sprintf("%d entries returned, the store holds %d plans", len(r.items), len(want)))
				}
				if weak {
					continue
				}
				for i := range r.items {
					if i < len(want) && r.items[i].ID != want[i].id {
						add(q, "search-wrong", cfg.Vault+":cancel", "entries out of order after cancellation")
						break
					}
				}
			case "search":
				if weak && (len(q.Groups)+len(q.Statuses) > 0 || len(q.IDs) == 0) {
					queries--
					continue // the fake pager answers id queries only
				}
				fl := storage.Filters{}
				for _, i := range q.IDs {
					if i < 0 {
						fl.ByIDs = append(fl.ByIDs, unknownID)
					} else {
						fl.ByIDs = append(fl.ByIDs, model[i].id)
					}
				}
				for _, g := range q.Groups {
					fl.ByGroupIDs = append(fl.ByGroupIDs, groups[g])
				}
				for _, s := range q.Statuses {
					fl.ByStatus = append(fl.ByStatus, searchStatuses[s])
				}
				ch, err := v.Search(ctx, fl)
				empty := len(q.IDs)+len(q.Groups)+len(q.Statuses) == 0
				if empty {
					if err == nil {
						add(q, "search-without-filter-accepted", cfg.Vault, "Search without any filter returned no error")
						r := consume(ch)
						synctest.Wait()
						if !r.closed {
							return
						}
					}
					continue
				}
				if err != nil {
					add(q, "search-failed", cfg.Vault+":"+filterClass(q), err.Error())
					continue
				}
				r := consume(ch)
				synctest.Wait()
				if !r.closed {
					add(q, "stream-never-closed", cfg.Vault+":search", "the result stream of Search was never closed")
					return
				}
				want := refSearch(model, q, groups)
				if weak {
					if len(r.errs) > 0 {
						add(q, "search-stream-error", cfg.Vault+":"+errClass(r.errs[0]), r.errs[0].Error())
					} else if d := compareAsSets(r.items, want, 0); d != "" {
						add(q, "search-wrong", cfg.Vault+":ids:set", d)
					}
					continue
				}
				if len(r.errs) > 0 {
					add(q, "search-stream-error", cfg.Vault+":"+errClass(r.errs[0]), r.errs[0].Error())
				} else if d := compareResults(r.items, want); d != "" {
					add(q, "search-wrong", cfg.Vault+":"+filterClass(q)+":"+diffClass(d), d)
				}
			}
		}
		cctx, cancel := context.WithTimeout(ctx, 5*time.Second)
		v.Close(cctx)
		pool.Close(cctx)
		cancel()
	})
	return found, queries
}

// filterClass names which filters a query uses and whether any is multi-valued.
func filterClass(q searchQuery) string {
	var parts []string
	f := func(name string, n int) {
		switch {
		case n == 1:
			parts = append(parts, name)
		case n > 1:
			parts = append(parts, name+"*")
		}
	}
	f("ids", len(q.IDs))
	f("groups", len(q.Groups))
	f("statuses", len(q.Statuses))
	return strings.Join(parts, "+")
}

func errClass(err error) string {
	switch m := err.Error(); {
	case strings.Contains(m, "syntax error"):
		return "sql-syntax"
	case strings.Contains(m, "context"):
		return "context"
	}
	return "other"
}

func diffClass(d string) string {
	if strings.HasPrefix(d, "returned") {
		return "set-or-order"
	}
	return "entry-fields"
}

func enumC15(env *EnumEnv, it *WorkItem) *EnumResult {
	res := &EnumResult{Exhaustive: true}
	reported := map[string]bool{}
	maxN := 3
	if env.Tier == "thorough" {
		maxN = 4
	}
	idx := 0
	for _, f := range append(vaultFactories(), cosmosPagedFactories...) {
		expired := false
		for L := 0; L <= maxN && !expired; L++ {
			var rec func(prefix []int)
			rec = func(prefix []int) {
				if len(prefix) < L {
					for c := 0; c < 8 && !expired; c++ {
						rec(append(prefix, c))
					}
					return
				}
				idx++
				if idx%it.NShards != it.Shard {
					return
				}
				if env.Expired() {
					expired = true
					res.Exhaustive = false
					res.Notes = append(res.Notes, fmt.Sprintf("budget reached among the stores with %d plans after %d evaluations of this shard; all smaller stores were covered completely", L, res.Evaluations))
					return
				}
				cfg := searchConfig{Vault: f.name, Plans: append([]int{}, prefix...)}
				found, n := checkSearchConfig(env.T, cfg, nil)
				res.Evaluations += n
				if len(prefix) > 0 {
					res.Distinct += n
				}
				for _, fd := range found {
					k := fd.V.Rule + "|" + fd.V.Signature
					if !reported[k] {
						reported[k] = true
						res.Found = append(res.Found, fd)
					}
				}
				if len(res.Samples) < 2 && len(prefix) == maxN {
					res.Samples = append(res.Samples, fmt.Sprintf("store %v (status=c%%4 of %v, group=c/4): %d queries, e.g. %s", cfg.Plans, searchStatuses, n, searchQueries(len(prefix))[37]))
				}
			}
			rec(nil)
		}
	}
	res.Notes = append(res.Notes, "CosmosDB (over the package's fake client): Exists, Search by ids, List without a limit (as sets) and stream termination are checked; List with a limit makes the fake itself panic (it asserts an int64 parameter, the reader passes int); group/status filters and the order cannot be decided here (the fake pager evaluates neither and there is no Cosmos SQL engine in the sandbox)")
	return res
}

func init() {
	register(&PropDef{
		ID:    "C15",
		Level: "exploration",
		Rule: "every store content of 0-3 (4) plans over {NotStarted, Running, Completed, Failed} x 2 groups with submit times that are not in creation order, plus one created-and-deleted plan; against each store ALL filter combinations from ids in {none, unknown, known, known+unknown, two known} x groups in {none, one, two, unknown, known+unknown} x " +
			"statuses in {none, one, two, two other, one other}, List with every limit 0..n+1, Exists for every created, the never created and the deleted id; each store runs in a testing/synctest bubble, so a result stream that is never closed is detected exactly (its consumer stays durably blocked); " +
			"oracle: reference filter + sort (newest submission first) over a model store, entry fields compared; sqlite completely, CosmosDB over its fake for what the fake evaluates (Exists, id search and unlimited List as sets, stream termination), also with the fake's answers re-served in pages of one item, with and without an empty page in the middle; distinct_nontrivial = queries against non-empty stores",
		Assumptions: []string{"sqlite only: the CosmosDB fake cannot evaluate group/status queries", "a Search without any filter must be refused"},
		Items:       func(tier string) []WorkItem { return shardItems("C15", 16) },
		Enum:        enumC15,
		ReplayInput: func(env *EnumEnv, raw []byte) []*Violation {
			var in struct {
				Config searchConfig `json:"config"`
				Query  searchQuery  `json:"query"`
			}
			if err := jsonUnmarshal(raw, &in); err != nil {
				return []*Violation{{Property: "C15", Rule: "bad-input", Msg: err.Error()}}
			}
			found, _ := checkSearchConfig(env.T, in.Config, &in.Query)
			var out []*Violation
			for _, f := range found {
				v := f.V
				out = append(out, &v)
			}
			return out
		},
	})
}
