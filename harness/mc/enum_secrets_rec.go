package mc

import "fmt"

// Statically declared recursive request/response types for C17 (reflect cannot build recursive types at run time).
// Every family has type identities of its own, so that whatever a scrubber remembers per type is asked for the first
// time through the entry that the family is about, whatever ran earlier in the process.

// A: two mutually recursive structs entered through a wrapper field; the secure field comes AFTER the field that closes the cycle.
type recFolderA struct {
	Name    string
	Entries []*recEntryA
	Token   string `coerce:"secure"`
}
type recEntryA struct {
	Label  string
	Sub    *recFolderA
	Cookie string `coerce:"secure"`
}
type recReqA struct{ Root *recFolderA }

// B: entered through the other struct, secure fields first, a map on the cycle.
type recFolderB struct {
	Token   string `coerce:"secure"`
	Name    string
	Entries map[string]*recEntryB
}
type recEntryB struct {
	Cookie string `coerce:"secure"`
	Sub    *recFolderB
	Label  string
}
type recReqB struct{ First recEntryB }

// C: the recursive struct itself is the request (behind the interface), slices of values and an interface field on the cycle.
type recFolderC struct {
	Name    string
	Entries []recEntryC
	Token   string `coerce:"secure"`
}
type recEntryC struct {
	Sub    *recFolderC
	Any    any
	Cookie string `coerce:"secure"`
	Label  string
}

// D: self-recursive node.
type recNodeD struct {
	Next   *recNodeD
	Kids   []*recNodeD
	Plain  string
	Secret string `coerce:"secure"`
}
type recReqD struct{ Head recNodeD }

// E: a cycle of three, the only secret in the last one.
type recE1 struct {
	Name string
	Two  *recE2
}
type recE2 struct {
	Name  string
	Three []recE3
}
type recE3 struct {
	Back   *recE1
	Name   string
	Secret string `coerce:"secure"`
}
type recReqE struct{ Start recE1 }

// F: like A, but the second struct of the cycle has no secret of its own (it only leads back to the first).
type recFolderF struct {
	Name    string
	Entries []*recEntryF
	Token   string `coerce:"secure"`
}
type recEntryF struct {
	Label string
	Sub   *recFolderF
}
type recReqF struct{ Root *recFolderF }

// G: the same pair, entered through the struct that has no secret of its own; a map of values on the cycle.
type recFolderG struct {
	Entries map[string]recEntryG
	Name    string
	Token   string `coerce:"secure"`
}
type recEntryG struct {
	Sub   *recFolderG
	Label string
}
type recReqG struct{ First *recEntryG }

func recF(d int, c *canaries) *recFolderF {
	f := &recFolderF{Name: c.next(false), Token: c.next(true)}
	if d > 0 {
		for i := 0; i < 2; i++ {
			f.Entries = append(f.Entries, &recEntryF{Label: c.next(false), Sub: recF(d-1, c)})
		}
	}
	return f
}

func recG(d int, c *canaries) *recFolderG {
	f := &recFolderG{Name: c.next(false), Token: c.next(true)}
	if d > 0 {
		f.Entries = map[string]recEntryG{"k": {Label: c.next(false), Sub: recG(d-1, c)}}
	}
	return f
}

func recA(d int, c *canaries) *recFolderA {
	f := &recFolderA{Name: c.next(false), Token: c.next(true)}
	if d > 0 {
		for i := 0; i < 2; i++ {
			f.Entries = append(f.Entries, &recEntryA{Label: c.next(false), Cookie: c.next(true), Sub: recA(d-1, c)})
		}
	}
	return f
}

func recB(d int, c *canaries) *recFolderB {
	f := &recFolderB{Name: c.next(false), Token: c.next(true)}
	if d > 0 {
		f.Entries = map[string]*recEntryB{"k": {Label: c.next(false), Cookie: c.next(true), Sub: recB(d-1, c)}}
	}
	return f
}

func recC(d int, c *canaries) *recFolderC {
	f := &recFolderC{Name: c.next(false), Token: c.next(true)}
	if d > 0 {
		f.Entries = []recEntryC{{Label: c.next(false), Cookie: c.next(true), Sub: recC(d-1, c)}, {Label: c.next(false), Cookie: c.next(true), Any: recC(d-1, c)}}
	}
	return f
}

func recD(d int, c *canaries) *recNodeD {
	n := &recNodeD{Plain: c.next(false), Secret: c.next(true)}
	if d > 0 {
		n.Next = recD(d-1, c)
		n.Kids = []*recNodeD{recD(d-1, c)}
	}
	return n
}

func recE(d int, c *canaries) *recE1 {
	e := &recE1{Name: c.next(false)}
	e.Two = &recE2{Name: c.next(false)}
	t := recE3{Name: c.next(false), Secret: c.next(true)}
	if d > 0 {
		t.Back = recE(d-1, c)
	}
	e.Two.Three = []recE3{t}
	return e
}

var recFamilies = []string{"A", "B", "C", "D", "E", "F", "G"}

func recPayload(family string, pointer bool, c *canaries) any {
	const depth = 2
	switch family {
	case "A":
		v := recReqA{Root: recA(depth, c)}
		if pointer {
			return &v
		}
		return v
	case "B":
		v := recReqB{First: recEntryB{Label: c.next(false), Cookie: c.next(true), Sub: recB(depth, c)}}
		if pointer {
			return &v
		}
		return v
	case "C":
		v := recC(depth, c)
		if pointer {
			return v
		}
		return *v
	case "D":
		v := recReqD{Head: *recD(depth, c)}
		if pointer {
			return &v
		}
		return v
	case "F":
		v := recReqF{Root: recF(depth, c)}
		if pointer {
			return &v
		}
		return v
	case "G":
		v := recReqG{First: &recEntryG{Label: c.next(false), Sub: recG(depth, c)}}
		if pointer {
			return &v
		}
		return v
	case "E":
		v := recReqE{Start: *recE(depth, c)}
		if pointer {
			return &v
		}
		return v
	}
	panic("unknown recursive family " + family)
}

// recursiveCases: family x placement x surface x value/pointer (the family is carried in secretCase.Shape).
func recursiveCases() []secretCase {
	var out []secretCase
	for _, f := range recFamilies {
		for _, pl := range []string{"seqreq", "chkreq", "resp", "chkresp"} {
			for _, su := range []string{"plan", "block", "checks", "sequence", "action", "plan-default", "render"} {
				for _, ptr := range []bool{false, true} {
					out = append(out, secretCase{Shape: "rec" + f, Placement: pl, Surface: su, Pointer: ptr})
				}
			}
		}
	}
	return out
}

func checkRecursiveCase(c secretCase) (rule, sig, msg string) {
	class := "recursive:" + c.Shape
	defer func() {
		if r := recover(); r != nil {
			rule, sig, msg = "scrubber-panicked", class, fmt.Sprintf("recursive type family %s placed as %s (pointer=%v), surface %s: panic: %v", c.Shape, c.Placement, c.Pointer, c.Surface, r)
		}
	}()
	if len(c.Shape) != 4 {
		return "bad-input", class, "unknown family " + c.Shape
	}
	can := &canaries{prefix: "r"}
	payload := recPayload(c.Shape[3:], c.Pointer, can)
	return checkSecretPayload(c, payload, can, class, func() string { return fmt.Sprintf("%T", payload) })
}
