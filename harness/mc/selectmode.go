package mc

import _ "unsafe"

// selectOrderMode lives in the (overlaid) runtime: 0 = stock random poll order, 1 = source order, 2 = last case first.
// The harness owns this source of nondeterminism: an execution runs entirely in one mode.
//
//go:linkname selectOrderMode runtime.selectOrderMode
var selectOrderMode uint32

// SetSelectOrder switches the poll order of every select statement in the process.
func SetSelectOrder(mode uint32) { selectOrderMode = mode }
