package mc

import _ "unsafe"

// selectOrderMode lives in the (overlaid) runtime: 0 = stock random poll order, 1 = source order, 2 = last case first.
// The harness owns this source of nondeterminism: an execution runs entirely in one mode.
//
//go:linkname selectOrderMode runtime.selectOrderMode
var selectOrderMode uint32

// SetSelectOrder switches the poll order of every select statement in the process.
func SetSelectOrder(mode uint32) { selectOrderMode = mode }

// wakeFirstMode lives in the (overlaid) runtime: 0 = stock behaviour (the waker runs on), 1 = a goroutine of a bubble that
// made another one runnable yields to it at once.
//
//go:linkname wakeFirstMode runtime.wakeFirstMode
var wakeFirstMode uint32

// SetWakeFirst switches the internal scheduling policy of the process.
func SetWakeFirst(on bool) {
	if on {
		wakeFirstMode = 1
	} else {
		wakeFirstMode = 0
	}
}
