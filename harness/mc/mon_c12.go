package mc

import (
	"fmt"
	"strings"

	"github.com/element-of-surprise/coercion/workflow"
)

// C12: a plan executes at most once; API robustness.
type monC12 struct{}

// finishedPlanUntouched: "rejected without side effects" for a plan that has finished - once the stored plan reads
// Completed or Failed (its own record is the last write of an execution) no later API call, in particular no rejected
// Start, may change anything in it.
func finishedPlanUntouched(x *Exec) {
	for pi := range x.Sc.Plans {
		p, err := x.ReadPlan(pi)
		if err != nil || p == nil || p.State == nil {
			continue
		}
		key := fmt.Sprintf("c12:final:%d", pi)
		now := dumpOf(p)
		if was, ok := x.Mem[key].(string); ok {
			if was != now {
				x.Report(&Violation{Property: "C12", Rule: "finished-plan-changed-by-later-call", Signature: "side-effect-on-finished-plan",
					Msg: fmt.Sprintf("P%d was stored as finished and changed afterwards: %s", pi, firstDiff2(was, now))})
				x.Mem[key] = now
			}
			continue
		}
		if p.State.Status == workflow.Completed || p.State.Status == workflow.Failed {
			x.Mem[key] = now
		}
	}
}

func (monC12) AtState(x *Exec) {
	finishedPlanUntouched(x)
	from, to := newEvents(x, "c12")
	if from == to {
		return
	}
	w := x.W
	w.mu.Lock()
	evs := w.Events[from:to:to]
	w.mu.Unlock()
	for i := range evs {
		e := &evs[i]
		switch e.Kind {
		case "INV":
			oi := w.Objs[e.Path]
			if oi == nil || oi.Act == nil || oi.Group == "cont" {
				continue
			}
			if e.N > oi.Act.Retries {
				x.Report(&Violation{Property: "C12", Rule: "plan-executed-more-than-once", Signature: "double-execution",
					Msg: fmt.Sprintf("%s was invoked %d times (Retries=%d): the plan is being executed more than once", e.Path, e.N+1, oi.Act.Retries)})
			}
		case "APIRET":
			if strings.HasPrefix(e.Err, "PANIC") {
				op := e.Out
				if j := strings.IndexByte(op, '('); j > 0 {
					op = op[:j]
				}
				x.Report(&Violation{Property: "C12", Rule: "api-call-panicked", Signature: "panic:" + op + unknownSuffix(e.Out),
					Msg: fmt.Sprintf("%s panicked: %s", e.Out, e.Err)})
			}
		}
	}
}

func unknownSuffix(call string) string {
	if strings.Contains(call, "P-1") {
		return ":unknown-id"
	}
	return ""
}

func (monC12) AtEnd(x *Exec) {
	if x.Outcome == "hang" {
		h := NewHist(x, 0)
		x.Report(&Violation{Property: "C12", Rule: "api-call-never-returned", Signature: hangCause(x, h),
			Msg: "an API call never returned although nothing is enabled and no timer is pending"})
		return
	}
	w := x.W
	w.mu.Lock()
	evs := w.Events[:len(w.Events):len(w.Events)]
	w.mu.Unlock()
	// happens-after: a Start issued after a successful Start of the same plan returned must be rejected
	type startInfo struct {
		apiIdx, retIdx int
		ok             bool
		thread         string
		plan           int
	}
	var starts []startInfo
	open := map[string]int{}
	stale := map[int]bool{}
	sleptBefore := map[string]bool{}
	for i := range evs {
		e := &evs[i]
		if e.Kind == "API" && strings.HasPrefix(e.Out, "sleep") {
			sleptBefore[e.Thread] = true
		}
		if e.Kind == "API" && strings.HasPrefix(e.Out, "start(") {
			var pi int
			fmt.Sscanf(e.Out, "start(P%d)", &pi)
			starts = append(starts, startInfo{apiIdx: i, retIdx: -1, thread: e.Thread, plan: pi})
			open[e.Thread] = len(starts) - 1
			if sleptBefore[e.Thread] && x.Sc.MaxSubmitSec > 0 {
				stale[len(starts)-1] = true
			}
		}
		if e.Kind == "APIRET" && strings.HasPrefix(e.Out, "start(") {
			if j, ok := open[e.Thread]; ok {
				starts[j].retIdx = i
				starts[j].ok = e.Err == ""
				delete(open, e.Thread)
			}
		}
	}
	for j, b := range starts {
		if b.plan < 0 {
			if b.ok {
				x.Report(&Violation{Property: "C12", Rule: "start-of-unknown-plan-accepted", Signature: "unknown-id", Msg: "Start of a never submitted id returned nil"})
			}
			continue
		}
		if stale[j] && b.ok {
			x.Report(&Violation{Property: "C12", Rule: "stale-plan-started", Signature: "stale",
				Msg: fmt.Sprintf("Start(P%d) succeeded although the submission is older than the configured maximum", b.plan)})
		}
		for _, a := range starts {
			if a.plan == b.plan && a.ok && a.retIdx >= 0 && a.retIdx < b.apiIdx && b.ok {
				x.Report(&Violation{Property: "C12", Rule: "second-start-accepted", Signature: "restart",
					Msg: fmt.Sprintf("Start(P%d) by %s returned nil although an earlier Start of the same plan had already succeeded", b.plan, b.thread)})
			}
		}
	}
	// a plan none of whose Start calls succeeded must not have been executed at all
	for pi := range x.Sc.Plans {
		anyOK := false
		issued := false
		for _, s := range starts {
			if s.plan == pi {
				issued = true
				if s.ok || s.retIdx < 0 {
					anyOK = true
				}
			}
		}
		if issued && !anyOK {
			for i := range evs {
				if evs[i].Kind == "INV" {
					if oi := w.Objs[evs[i].Path]; oi != nil && oi.Plan == pi {
						x.Report(&Violation{Property: "C12", Rule: "rejected-start-had-side-effects", Signature: "side-effect",
							Msg: fmt.Sprintf("every Start(P%d) was rejected, yet %s was invoked", pi, evs[i].Path)})
						break
					}
				}
			}
		}
	}
	// a rejected Start must not disturb the running execution: if exactly one Start succeeded and the outcome is done,
	// a Wait that was issued must have returned a terminal plan.
	for _, r := range x.Results() {
		if r.Call.Op == "wait" && r.Call.Plan >= 0 && r.Err == nil && r.Plan != nil && r.Plan.State != nil {
			started := false
			for _, s := range starts {
				if s.plan == r.Call.Plan && s.ok {
					started = true
				}
			}
			if started && !terminal(r.Plan.State.Status) && waitAfterStart(evs, r) {
				x.Report(&Violation{Property: "C12", Rule: "wait-disturbed", Signature: "wait",
					Msg: fmt.Sprintf("Wait(P%d) issued after a successful Start returned a plan in status %s", r.Call.Plan, r.Plan.State.Status)})
			}
		}
	}
}

// waitAfterStart: the wait call was issued after some successful start of that plan had returned.
func waitAfterStart(evs []Event, r APIResult) bool {
	startRet := -1
	for i := range evs {
		e := &evs[i]
		if e.Kind == "APIRET" && e.Err == "" && e.Out == fmt.Sprintf("start(P%d)", r.Call.Plan) && startRet < 0 {
			startRet = i
		}
		if e.Kind == "API" && e.Thread == r.Thread && e.N == r.Idx && strings.HasPrefix(e.Out, "wait(") {
			return startRet >= 0 && startRet < i
		}
	}
	return false
}

var apiAlphabet = []APICall{
	{Op: "start", Plan: 0}, {Op: "start", Plan: -1},
	{Op: "wait", Plan: 0}, {Op: "wait", Plan: -1},
	{Op: "plan", Plan: 0}, {Op: "plan", Plan: -1},
	{Op: "status", Plan: 0, Arg: 2}, {Op: "status", Plan: -1, Arg: 1},
	{Op: "sleep", Plan: 0, Arg: 11},
}

// FamilyAPI: (i) all sequential histories up to length L over the alphabet; (ii) two or three driver threads.
func FamilyAPI(tier string) []*Scenario {
	var out []*Scenario
	plan := PlanSpec{Blocks: []BlockSpec{{Seqs: []SeqSpec{Seq(A(), A())}}}}
	L := 3
	if tier == "thorough" {
		L = 4
	}
	var rec func(prefix []APICall)
	rec = func(prefix []APICall) {
		if len(prefix) > 0 {
			var names []string
			for _, c := range prefix {
				names = append(names, c.String())
			}
			out = append(out, &Scenario{Family: "F-api", Name: "api-seq-" + strings.Join(names, ";"), Plans: []PlanSpec{plan},
				Threads: [][]APICall{append([]APICall{}, prefix...)}, MaxSubmitSec: 10, Time: false, MaxTicks: 10, PostWaitTicks: 1})
		}
		if len(prefix) == L {
			return
		}
		for _, c := range apiAlphabet {
			if c.Op == "sleep" && len(prefix) > 0 && prefix[len(prefix)-1].Op == "sleep" {
				continue
			}
			rec(append(append([]APICall{}, prefix...), c))
		}
	}
	rec(nil)
	// concurrent drivers on the same plan
	st, wt, pl, ss := APICall{Op: "start", Plan: 0}, APICall{Op: "wait", Plan: 0}, APICall{Op: "plan", Plan: 0}, APICall{Op: "status", Plan: 0, Arg: 2}
	conc := map[string][][]APICall{
		"start|start":            {{st}, {st}},
		"start,wait|start,wait":  {{st, wt}, {st, wt}},
		"start,wait|start":       {{st, wt}, {st}},
		"start,wait|wait":        {{st, wt}, {wt}},
		"start,wait|status":      {{st, wt}, {ss}},
		"start,wait|plan,start":  {{st, wt}, {pl, st}},
		"start|start|start":      {{st}, {st}, {st}},
		"start,wait|wait|status": {{st, wt}, {wt}, {ss}},
		"start,start|wait":       {{st, st}, {wt}},
		"start,wait,start|plan":  {{st, wt, st}, {pl}},
	}
	for _, name := range sortedKeys(conc) {
		out = append(out, &Scenario{Family: "F-api", Name: "api-conc-" + name, Plans: []PlanSpec{plan}, Threads: conc[name], MaxSubmitSec: 10, MaxTicks: 10, PostWaitTicks: 1})
	}
	// slow store answers: between the answer to an API caller's Read and the caller acting on it anything may happen,
	// including a complete execution of the plan started by another caller (short plan: one action)
	short := PlanSpec{Blocks: []BlockSpec{{Seqs: []SeqSpec{Seq(A())}}}}
	for _, name := range []string{"start|start", "start,wait|start", "start,start|wait", "start,wait|plan,start"} {
		out = append(out, &Scenario{Family: "F-api", Name: "api-conc-slowread-" + name, Plans: []PlanSpec{short}, Threads: conc[name], SlowReads: true, MaxSubmitSec: 10, MaxTicks: 10, PostWaitTicks: 1})
	}
	// plans that end early (failed first block, failed plan pre-check, bypassed plan): their last objects were never
	// reached and are still NotStarted - a finished plan must not be started again whatever its tail looks like
	early := map[string]PlanSpec{
		"block-fails":  {Blocks: []BlockSpec{{Seqs: []SeqSpec{Seq(A(Perm))}}, {Seqs: okSeqs(1, 1)}}},
		"pre-fails":    {Pre: Chk(A(Perm)), Post: Chk(A()), Blocks: []BlockSpec{{Seqs: okSeqs(1, 1)}}},
		"bypassed":     {Bypass: Chk(A()), Def: Chk(A()), Blocks: []BlockSpec{{Seqs: okSeqs(1, 1)}}},
		"all-complete": {Post: Chk(A()), Blocks: []BlockSpec{{Seqs: okSeqs(1, 1)}}},
	}
	for _, name := range sortedKeys(early) {
		out = append(out, &Scenario{Family: "F-api", Name: "api-restart-after-" + name, Plans: []PlanSpec{early[name]}, MaxSubmitSec: 100, MaxTicks: 6, PostWaitTicks: 1,
			Threads: [][]APICall{{{Op: "start", Plan: 0}, {Op: "wait", Plan: 0}, {Op: "start", Plan: 0}, {Op: "wait", Plan: 0}, {Op: "start", Plan: 0}}}})
	}
	// a finished plan whose submission has meanwhile grown older than the maximum: Start is refused for two reasons at
	// once and must still leave the stored result alone
	for _, name := range sortedKeys(early) {
		out = append(out, &Scenario{Family: "F-api", Name: "api-stale-restart-after-" + name, Plans: []PlanSpec{early[name]}, MaxSubmitSec: 10, MaxTicks: 8, PostWaitTicks: 1,
			Threads: [][]APICall{{{Op: "start", Plan: 0}, {Op: "wait", Plan: 0}, {Op: "sleep", Plan: 0, Arg: 11}, {Op: "start", Plan: 0}, {Op: "plan", Plan: 0}, {Op: "wait", Plan: 0}}}})
	}
	// a consumer that leaves the Status loop early while the plan is still Running (time passes by default while the
	// sequence action executes, so the poll falls inside the execution)
	for _, n := range []int{1, 2} {
		out = append(out, &Scenario{Family: "F-api", Name: fmt.Sprintf("api-status-break-while-running-%d", n), Plans: []PlanSpec{{Blocks: []BlockSpec{{Seqs: []SeqSpec{Seq(A())}}}}}, MaxSubmitSec: 100, Time: true, SlowPlugins: true, MaxTicks: 2 + n, PostWaitTicks: 2,
			Threads: [][]APICall{{{Op: "start", Plan: 0}, {Op: "status", Plan: 0, Arg: n}, {Op: "plan", Plan: 0}, {Op: "wait", Plan: 0}}}})
	}
	// submission by the driver itself, valid and invalid
	out = append(out, &Scenario{Family: "F-api", Name: "api-submit", Plans: []PlanSpec{plan}, NoPresubmit: true, MaxTicks: 6,
		Threads: [][]APICall{{{Op: "submitbad", Plan: 0}, {Op: "start", Plan: 0}, {Op: "submit", Plan: 0}, {Op: "start", Plan: 0}, {Op: "wait", Plan: 0}, {Op: "start", Plan: 0}}}})
	return out
}

func init() {
	register(&PropDef{
		ID:    "C12",
		Level: "model_checking",
		Rule: "family F-api: (i) ALL sequential histories up to length 3 (4) over {Start, Wait, Plan, Status on a known and on an unknown id, sleep past maxSubmit} issued by a driver thread while the engine runs, " +
			"(ii) two and three driver threads issuing Start/Wait/Plan/Status on the same plan, also with slow store answers (a second scheduling point between the answer to an API caller's Read and the caller acting on it), (iii) submission (valid/invalid) by the driver; every order of visible operations (API calls, storage reads/writes, plugin calls) within the deviation bound " +
			"(unbounded for the concurrent scenarios in the thorough tier); a panic of an API call is caught in the driver thread, a panic or exit elsewhere kills the worker and is reported from its write-ahead schedule; " +
			"distinct_nontrivial = distinct states in which two or more logical threads were enabled",
		Assumptions: []string{"a free worker-pool runner always exists (64 runners)", "I/O granularity: the window between Start's validation and the registration of the waiter is one atomic step unless another Start's storage read is interleaved"},
		NewMon:      func(sc *Scenario) Monitor { return monC12{} },
		Items: func(tier string) []WorkItem {
			var items []WorkItem
			for _, sc := range FamilyAPI(tier) {
				b := 1
				if strings.HasPrefix(sc.Name, "api-conc") {
					b = 3
					if tier == "thorough" {
						b = Unbounded
					}
				}
				items = append(items, exploreCap("C12", sc, b, true, 120))
			}
			// the concurrent shapes again under the second internal scheduling policy (a woken goroutine runs before its
			// waker goes on): registration of the waiter, the pool hand-off and the callers interleave in the opposite order
			for _, sc := range wakeTwins(FamilyAPI(tier)) {
				if !strings.HasPrefix(sc.Name, "api-conc") {
					continue
				}
				b := 3
				if tier == "thorough" {
					b = Unbounded
				}
				items = append(items, exploreCap("C12", sc, b, true, 120))
			}
			return items
		},
	})
}
