package mc

import (
	"fmt"
	"sort"
	"strings"
	"time"

	coercion "github.com/element-of-surprise/coercion"
	"github.com/element-of-surprise/coercion/plugins"
	"github.com/element-of-surprise/coercion/workflow"
)

// bootStates prepares a store holding one plan per entry of sc.BootStates (see Scenario.BootStates).
func bootStates(sc *Scenario) func(x *Exec) error {
	return func(x *Exec) error {
		tmp, err := coercion.New(x.Ctx, x.Reg, x.Inner)
		if err != nil {
			return err
		}
		// submissions one second apart (Search orders by submit time), then one instant of recorded activity for all
		// (so that BootAgeSec is exact), except for running-old, whose activity lies an hour back whatever BootAgeSec says
		var built []*workflow.Plan
		for pi := range sc.BootStates {
			p := x.buildPlan(pi)
			if _, err := tmp.Submit(x.Ctx, p); err != nil {
				return err
			}
			x.registerPlan(pi, p)
			built = append(built, p)
			time.Sleep(time.Second)
		}
		tAct := time.Now()
		for pi, state := range sc.BootStates {
			t0 := tAct
			if state == "running-old" {
				t0 = t0.Add(-time.Hour)
			}
			p := built[pi]
			objs := planObjects(p)
			// running-long: the newest recorded activity is the END of objects that started long before the maximum
			// age (staggered, each later than its parent), next to a sequence that has been Running for as long
			startOffset := map[string]time.Duration{}
			if state == "running-long" {
				pp := fmt.Sprintf("P%d", pi)
				startOffset[pp] = 3600 * time.Second
				startOffset[pp+"/B0"] = 3590 * time.Second
				startOffset[pp+"/B0/S0"] = 3580 * time.Second
				startOffset[pp+"/B0/S0/A0"] = 3570 * time.Second
				startOffset[pp+"/B0/S1"] = 3575 * time.Second
				startOffset[pp+"/B0/S1/A0"] = 3565 * time.Second
			}
			planPath := fmt.Sprintf("P%d", pi)
			set := func(path string, st workflow.Status, ended bool) error {
				w := WriteRec{Path: path}
				state := &workflow.State{Status: st, Start: t0}
				if ended {
					state.End = t0
				}
				if off, ok := startOffset[path]; ok {
					// a long-running object: it started long ago (its End, if any, is the recent instant)
					state.Start = t0.Add(-off)
				}
				switch o := objs[path].(type) {
				case *workflow.Plan:
					cp := &workflow.Plan{State: state}
					if st == workflow.Failed {
						cp.Reason = workflow.FRBlock
					}
					w.Obj = cp
				case *workflow.Block:
					w.Obj = &workflow.Block{State: state}
				case *workflow.Sequence:
					w.Obj = &workflow.Sequence{State: state}
				case *workflow.Checks:
					w.Obj = &workflow.Checks{State: state}
				case *workflow.Action:
					a := &workflow.Action{State: state}
					switch st {
					case workflow.Completed:
						a.Attempts = []*workflow.Attempt{{Resp: Resp{Path: path}, Start: t0, End: t0}}
					case workflow.Failed:
						a.Attempts = []*workflow.Attempt{{Err: &plugins.Error{Message: "failed", Permanent: true}, Start: t0, End: t0}}
					}
					w.Obj = a
				default:
					_ = o
					return fmt.Errorf("no object %s", path)
				}
				return applyWrite(x.Ctx, x.Inner, objs, w)
			}
			var err error
			switch state {
			case "notstarted":
			case "running", "running-old", "running-long":
				// block 0 half done: sequence 0 finished, sequence 1 in flight without a durable result
				for _, step := range []struct {
					p  string
					st workflow.Status
					e  bool
				}{{planPath, workflow.Running, false}, {planPath + "/B0", workflow.Running, false},
					{planPath + "/B0/S0", workflow.Completed, true}, {planPath + "/B0/S0/A0", workflow.Completed, true},
					{planPath + "/B0/S1", workflow.Running, false}, {planPath + "/B0/S1/A0", workflow.Running, false}} {
					if err == nil {
						err = set(step.p, step.st, step.e)
					}
				}
			case "completed":
				for path := range objs {
					if err == nil {
						err = set(path, workflow.Completed, true)
					}
				}
			case "failed":
				for _, step := range []struct {
					p  string
					st workflow.Status
				}{{planPath, workflow.Failed}, {planPath + "/B0", workflow.Failed}, {planPath + "/B0/S0", workflow.Failed}, {planPath + "/B0/S0/A0", workflow.Failed}} {
					if err == nil {
						err = set(step.p, step.st, true)
					}
				}
			default:
				err = fmt.Errorf("unknown boot state %q", state)
			}
			if err != nil {
				return err
			}
		}
		// the last recorded activity is BootAgeSec seconds old when the Workstream is constructed
		time.Sleep(time.Duration(sc.BootAgeSec) * time.Second)
		for pi := range sc.BootStates {
			if p, err := x.ReadPlan(pi); err == nil {
				v := View(p)
				x.Mem[fmt.Sprintf("bootView:%d", pi)] = v
				x.Mem[fmt.Sprintf("bootDigest:%d", pi)] = fullDigest(v)
			}
		}
		return nil
	}
}

// C11: only live Running plans are resumed; stale ones closed; others untouched.
type monC11 struct{}

func (monC11) AtState(x *Exec) {}

func (monC11) AtEnd(x *Exec) {
	sc := x.Sc
	if _, ok := x.Mem["crashState"]; ok {
		monC11Crash(x)
		return
	}
	if len(sc.BootStates) == 0 {
		return
	}
	h := NewHist(x, -1)
	maxAge := 30 * 60
	if sc.MaxLastUpdateSec > 0 {
		maxAge = sc.MaxLastUpdateSec
	}
	for pi, state := range sc.BootStates {
		planPath := fmt.Sprintf("P%d", pi)
		before, _ := x.Mem[fmt.Sprintf("bootDigest:%d", pi)].(string)
		p, err := x.ReadPlan(pi)
		if err != nil {
			x.Report(&Violation{Property: "C11", Rule: "plan-unreadable", Signature: state, Msg: err.Error()})
			continue
		}
		v := View(p)
		after := fullDigest(v)
		var invs []string
		for path, cs := range h.Calls {
			if strings.HasPrefix(path, planPath+"/") && len(cs) > 0 {
				invs = append(invs, path)
			}
		}
		rep := func(rule, format string, a ...any) {
			x.Report(&Violation{Property: "C11", Rule: rule, Signature: fmt.Sprintf("%s/recovery=%v", state, !sc.NoRecovery),
				Msg: fmt.Sprintf("%s (%s, last activity %ds before start-up, max %ds, recovery=%v): ", planPath, state, sc.BootAgeSec, maxAge, !sc.NoRecovery) + fmt.Sprintf(format, a...)})
		}
		aged := sc.BootAgeSec > maxAge || state == "running-old"
		switch {
		case (state != "running" && state != "running-old" && state != "running-long") || sc.NoRecovery:
			if len(invs) > 0 {
				rep("plan-not-to-be-resumed-was-executed", "invoked %v", invs)
			}
			if after != before {
				rep("plan-not-to-be-resumed-was-modified", "%s", firstDiff(before, after))
			}
		case aged:
			if len(invs) > 0 {
				rep("stale-plan-executed", "invoked %v", invs)
			}
			ps := v.Objs[planPath]
			if ps.Status != workflow.Failed || ps.Reason != workflow.FRExceedRecovery {
				rep("stale-plan-not-closed", "the plan is stored %s with reason %s, want Failed/ExceedRecovery", ps.Status, ps.Reason)
			}
			for _, path := range v.Order {
				if v.Objs[path].Status == workflow.Running {
					rep("stale-plan-left-running-objects", "%s is still stored Running", path)
					break
				}
			}
		default:
			if x.Outcome != "done" {
				rep("live-plan-not-driven-to-the-end", "outcome %s", x.Outcome)
				continue
			}
			ps := v.Objs[planPath]
			if !terminal(ps.Status) {
				rep("live-plan-not-resumed", "the plan is stored %s", ps.Status)
			}
			if ps.Reason == workflow.FRExceedRecovery {
				rep("live-plan-closed-as-stale", "closed with ExceedRecovery although its last activity is within the maximum")
			}
			for _, path := range invs {
				if bv, _ := x.Mem[fmt.Sprintf("bootView:%d", pi)].(*PlanView); bv != nil && durableSuccess(bv.Objs[path]) {
					rep("durably-finished-work-executed-again", "%s was invoked", path)
				}
			}
			if len(invs) == 0 {
				rep("live-plan-not-resumed", "no plugin was invoked for a plan with work left")
			}
		}
	}
}

// monC11Crash: the store is a crash state of a real execution (every durable prefix of every explored schedule), the
// restart happens CrashAgeSec+1 s after the crash instant. The verdict live/stale is only asserted when it does not
// depend on how "most recent recorded activity" is read: stale when even the crash instant is older than the maximum,
// live when the latest state timestamp in the stored plan is younger.
func monC11Crash(x *Exec) {
	sc := x.Sc
	h := NewHist(x, -1)
	maxAge := 30 * 60
	if sc.MaxLastUpdateSec > 0 {
		maxAge = sc.MaxLastUpdateSec
	}
	cs, _ := x.Mem["crashState"].(*CrashState)
	restart, _ := x.Mem["restartAt"].(time.Time)
	for pi := range sc.Plans {
		planPath := fmt.Sprintf("P%d", pi)
		bv, _ := x.Mem[fmt.Sprintf("crashView:%d", pi)].(*PlanView)
		if bv == nil || bv.Objs[planPath] == nil {
			continue
		}
		before := fullDigest(bv)
		p, err := x.ReadPlan(pi)
		if err != nil {
			x.Report(&Violation{Property: "C11", Rule: "plan-unreadable", Signature: "crash", Msg: err.Error()})
			continue
		}
		v := View(p)
		after := fullDigest(v)
		var invs []string
		for path, cs := range h.Calls {
			for _, c := range cs {
				if strings.HasPrefix(path, planPath+"/") && c.Gen == x.W.Gen {
					invs = append(invs, path)
					break
				}
			}
		}
		sort.Strings(invs)
		st := bv.Objs[planPath].Status
		var latest time.Time
		for _, o := range bv.Objs {
			for _, t := range []time.Time{o.Start, o.End} {
				if t.After(latest) {
					latest = t
				}
			}
		}
		sinceCrash := int64(sc.CrashAgeSec) + 1
		rep := func(rule, format string, a ...any) {
			x.Report(&Violation{Property: "C11", Rule: rule, Signature: fmt.Sprintf("crash-state/%s", st),
				Msg: fmt.Sprintf("%s (stored %s at the crash after %d durable writes; restart %d s after the crash, max %d s): ", planPath, st, cs.K, sinceCrash, maxAge) + fmt.Sprintf(format, a...)})
		}
		switch {
		case st != workflow.Running:
			if len(invs) > 0 {
				rep("plan-not-to-be-resumed-was-executed", "invoked %v", invs)
			}
			if after != before {
				rep("plan-not-to-be-resumed-was-modified", "%s", firstDiff(before, after))
			}
		case sinceCrash > int64(maxAge):
			if len(invs) > 0 {
				rep("stale-plan-executed", "invoked %v", invs)
			}
			ps := v.Objs[planPath]
			if ps.Status != workflow.Failed || ps.Reason != workflow.FRExceedRecovery {
				rep("stale-plan-not-closed", "the plan is stored %s with reason %s, want Failed/ExceedRecovery", ps.Status, ps.Reason)
			}
			for _, path := range v.Order {
				if v.Objs[path].Status == workflow.Running {
					rep("stale-plan-left-running-objects", "%s is still stored Running (it was %s at the crash)", path, bv.Objs[path].Status)
					break
				}
			}
			// closing must not invent progress: what was finished or never started stays what it was
			for _, path := range v.Order {
				b, a := bv.Objs[path], v.Objs[path]
				if b != nil && a != nil && b.Status != workflow.Running && b.Status != a.Status {
					rep("stale-plan-closure-changed-finished-object", "%s was %s at the crash and is %s after the closure", path, b.Status, a.Status)
					break
				}
			}
		case !latest.IsZero() && !restart.IsZero() && restart.Sub(latest) < time.Duration(maxAge)*time.Second:
			if x.Outcome != "done" {
				rep("live-plan-not-driven-to-the-end", "outcome %s", x.Outcome)
				continue
			}
			ps := v.Objs[planPath]
			if !terminal(ps.Status) {
				rep("live-plan-not-resumed", "the plan is stored %s", ps.Status)
			}
			if ps.Reason == workflow.FRExceedRecovery {
				rep("live-plan-closed-as-stale", "closed with ExceedRecovery although its latest state timestamp is %v old", restart.Sub(latest))
			}
		}
	}
}

// agedCrashScenarios: crash scenarios restarted beyond (aged) and within (live) a 10 s maximum.
func agedCrashScenarios(tier string) []*Scenario {
	var out []*Scenario
	for _, sc := range FamilyCrash(tier) {
		n := sc.Name
		pick := strings.HasPrefix(n, "crash-b2-n2-a2-c2-t1-") || strings.HasPrefix(n, "crash-b1-n2-a2-c2-t1-") || strings.HasPrefix(n, "crash-chk-") || strings.HasPrefix(n, "crash-2fail-t1-c2") ||
			n == "crash-all-groups" || n == "crash-seq-fails-def" || n == "crash-retry-ok-r1"
		if tier == "thorough" {
			pick = true
		}
		if !pick {
			continue
		}
		for _, v := range []struct {
			suffix string
			age    int
		}{{"-aged", 15}, {"-live", 3}} {
			if v.suffix == "-live" && tier != "thorough" && !strings.HasPrefix(n, "crash-b2-n2-a2-c2-t1-") {
				continue
			}
			c := cloneScenario(sc)
			c.Name += v.suffix
			c.CrashAgeSec = v.age
			c.MaxLastUpdateSec = 10
			out = append(out, c)
		}
	}
	return out
}

// FamilyBoot: store mixes.
func FamilyBoot(tier string) []*Scenario {
	var out []*Scenario
	states := []string{"notstarted", "running", "completed", "failed"}
	plan := PlanSpec{Blocks: []BlockSpec{{Seqs: okSeqs(2, 1), Conc: 2}, {Seqs: okSeqs(1, 1)}}}
	maxPlans := 2
	if tier == "thorough" {
		maxPlans = 3
	}
	type cfg struct {
		maxAge int // 0 = default 30 min
		ages   []int
	}
	cfgs := []cfg{{10, []int{9, 10, 11}}, {0, []int{1799, 1800, 1801}}}
	var rec func(prefix []string)
	rec = func(prefix []string) {
		if len(prefix) > 0 {
			hasRunning := false
			for _, s := range prefix {
				if s == "running" {
					hasRunning = true
				}
			}
			for _, c := range cfgs {
				for _, age := range c.ages {
					if !hasRunning && age != c.ages[0] {
						continue
					}
					for _, norec := range []bool{false, true} {
						if norec && age == c.ages[1] {
							continue // recovery off: a live age and a stale age ("nothing is resumed or modified" either way)
						}
						var plans []PlanSpec
						for range prefix {
							plans = append(plans, plan)
						}
						out = append(out, &Scenario{Family: "F-boot", Name: fmt.Sprintf("boot-%s-max%d-age%d-norec%v", strings.Join(prefix, "+"), c.maxAge, age, norec),
							Plans: plans, BootStates: append([]string{}, prefix...), BootAgeSec: age, MaxLastUpdateSec: c.maxAge, NoRecovery: norec, MaxTicks: 4})
					}
				}
			}
		}
		if len(prefix) == maxPlans {
			return
		}
		for _, s := range states {
			// multiset-canonical: non-decreasing order of state index
			if len(prefix) > 0 && indexOf(states, s) < indexOf(states, prefix[len(prefix)-1]) {
				continue
			}
			rec(append(append([]string{}, prefix...), s))
		}
	}
	rec(nil)
	// several Running plans at once: live ones submitted before and after a stale one (start-up filters the list it
	// iterates over), and more Running plans than the store has connections
	three := PlanSpec{Blocks: []BlockSpec{{Seqs: okSeqs(3, 1), Conc: 1}}}
	for _, v := range []struct {
		name   string
		states []string
	}{
		{"live+stale", []string{"running", "running-old"}},
		{"stale+live", []string{"running-old", "running"}},
		{"live+stale+live", []string{"running", "running-old", "running"}},
		{"stale+stale+live", []string{"running-old", "running-old", "running"}},
		{"long-action-just-ended", []string{"running-long"}},
		{"long-action-just-ended+stale", []string{"running-long", "running-old"}},
		{"live*3", []string{"running", "running", "running"}},
		{"live*4", []string{"running", "running", "running", "running"}},
	} {
		var plans []PlanSpec
		for range v.states {
			if strings.HasPrefix(v.name, "live*") {
				plans = append(plans, PlanSpec{Blocks: []BlockSpec{{Seqs: okSeqs(2, 1), Conc: 1}}}) // many plans: keep each small
				continue
			}
			plans = append(plans, three)
		}
		out = append(out, &Scenario{Family: "F-boot", Name: "boot-many-" + v.name, Plans: plans, BootStates: v.states, BootAgeSec: 5, MaxLastUpdateSec: 600, MaxTicks: 4})
	}
	// blocks with entrance and exit delays (short and far longer than the maximum): what counts is the age of the last
	// recorded activity alone, whatever the definition of the plan says about waiting
	delays := PlanSpec{Blocks: []BlockSpec{{Seqs: okSeqs(2, 1), Conc: 2, EntDel: 3, ExtDel: 20}, {Seqs: okSeqs(1, 1), EntDel: 1, ExtDel: 500}}}
	for _, age := range []int{11, 25} { // stale ages only: a resumed plan would sit in its delays beyond the scenario's horizon
		for _, norec := range []bool{false, true} {
			out = append(out, &Scenario{Family: "F-boot", Name: fmt.Sprintf("boot-delays-running-max10-age%d-norec%v", age, norec), Plans: []PlanSpec{delays},
				BootStates: []string{"running"}, BootAgeSec: age, MaxLastUpdateSec: 10, NoRecovery: norec, MaxTicks: 10})
		}
	}
	return out
}

func indexOf(xs []string, s string) int {
	for i, x := range xs {
		if x == s {
			return i
		}
	}
	return -1
}

func init() {
	register(&PropDef{
		ID:    "C11",
		Level: "model_checking",
		Rule: "family F-boot: every multiset of 1-2 (3) plans over {never started, Running, Completed, Failed} in one real sqlite store (Running plans hold a finished and an in-flight sequence), last recorded activity at max-1 s, max and max+1 s before start-up on the FAKE clock " +
			"(exact boundary) for WithMaxLastUpdate in {10 s, default 30 min}, recovery on and off; the store is read before coercion.New and after the engine has run to the end (every order of visible operations within the deviation bound); " +
			"plus the crash layer: every durable state (prefix of the storage writes of every explored schedule) of crash scenarios with concurrent sequences, failing sequences, every check group and retries is restarted 16 s (stale, max 10 s) and 4 s (live) after the crash; " +
			"distinct_nontrivial = distinct states in which two or more logical threads were enabled",
		Assumptions: []string{"64-runner pool, I/O granularity", "'older than the configured maximum' is strict: a plan whose last activity is exactly max old is still live", "Running plans are synthesised through the public Update* API"},
		NewMon:      func(sc *Scenario) Monitor { return monC11{} },
		Items: func(tier string) []WorkItem {
			var items []WorkItem
			b := 1
			if tier == "thorough" {
				b = 2
			}
			for _, sc := range FamilyBoot(tier) {
				if strings.HasPrefix(sc.Name, "boot-many-live*") && tier != "thorough" {
					items = append(items, explore("C11", sc, 1, false)) // three and four plans at once: every deviation costs
					continue
				}
				items = append(items, explore("C11", sc, b, true))
			}
			// the Running plans found in a store after a real crash: every durable state of the crash scenarios, restarted
			// beyond and within the maximum
			items = append(items, crashItems("C11", tier, agedCrashScenarios(tier))...)
			return items
		},
	})
}
