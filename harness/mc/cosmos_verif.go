//go:build verif

package mc

import (
	"context"

	"github.com/element-of-surprise/coercion/plugins/registry"
	"github.com/element-of-surprise/coercion/workflow/storage"
	"github.com/element-of-surprise/coercion/workflow/storage/cosmosdb"
)

func init() {
	cosmosFactory = &vaultFactory{name: "cosmosdb", new: func(ctx context.Context, reg *registry.Register) (storage.Vault, error) {
		return cosmosdb.NewFakeVaultForVerif(reg), nil
	}}
	// the same fake, its answers to the readers' queries re-served in pages of one item (with and without an empty page
	// in the middle): only for the listing/searching checks
	cosmosPagedFactories = []vaultFactory{
		{name: "cosmosdb-paged", new: func(ctx context.Context, reg *registry.Register) (storage.Vault, error) {
			return cosmosdb.NewPagedFakeVaultForVerif(reg, 1, false), nil
		}},
		{name: "cosmosdb-paged-emptypage", new: func(ctx context.Context, reg *registry.Register) (storage.Vault, error) {
			return cosmosdb.NewPagedFakeVaultForVerif(reg, 1, true), nil
		}},
	}
}
