//go:build verif

package mc

import (
	"context"

	"github.com/element-of-surprise/coercion/plugins/registry"
	"github.com/element-of-surprise/coercion/workflow/storage"
	"github.com/element-of-surprise/coercion/workflow/storage/cosmosdb"
)

func init() {
	cosmosFactory = &vaultFactory{name: "cosmosdb", new: func(ctx context.Context, reg *registry.Register) (storage.Vault, error) {
		return cosmosdb.NewFakeVaultForVerif(reg), nil
	}}
}
