package mc

import (
	"fmt"
	"strings"

	"github.com/element-of-surprise/coercion/workflow"
)

// C07: continuous-check failures are never lost; deferred checks run exactly once for entered scopes.
type monC07 struct{}

type c07idle struct {
	since int64 // fake time since which the scope's continuous-check thread is idle; -1 = busy
}

// AtState watches rule (b): while a sequence action of the scope is executing and no continuous check of the scope
// has failed, the continuous-check thread must not sit idle (no run in progress, no storage write pending) for a
// whole Delay: its ticker fires Delay after the previous run ended, so a new run must have begun by then.
func (monC07) AtState(x *Exec) {
	if _, rec := recoveryMode(x); rec {
		return // a restarted process is judged at the end (monC07Crash)
	}
	w := x.W
	gates := w.Parked()
	now := w.nowSec()
	h := (*Hist)(nil)
	for _, scope := range x.scopes() {
		_, _, cont, _, _ := x.scopeChecks(scope)
		if cont == nil {
			continue
		}
		key := "c07idle:" + scope
		m, _ := x.Mem[key].(*c07idle)
		if m == nil {
			m = &c07idle{since: -1}
			x.Mem[key] = m
		}
		busy := false
		seqInFlight := false
		for _, g := range gates {
			if g.Path == scope+"/Cont" || strings.HasPrefix(g.Path, scope+"/Cont/") {
				busy = true
			}
		}
		w.mu.Lock()
		for path, n := range w.InFlight {
			if n <= 0 {
				continue
			}
			if strings.HasPrefix(path, scope+"/Cont/") {
				busy = true
			}
			if oi := w.Objs[path]; isSeqAction(oi) && inScope(oi, scope) {
				seqInFlight = true
			}
		}
		w.mu.Unlock()
		delay := int64(cont.Delay)
		if delay == 0 {
			delay = 2
		}
		if delay < 0 {
			continue // Delay left unset (1 ns ticker): "idle for a whole Delay" says nothing at the clock's one-second grain
		}
		// m.since describes the previous state: idle (and a sequence action in flight) since then. The ticker was
		// re-armed at that time, so the clock cannot pass since+delay without the thread starting a new run.
		if m.since >= 0 {
			gap := now - m.since
			if gap > delay || (gap == delay && !busy) {
				if h == nil {
					h = NewHist(x, 0)
				}
				if !h.groupFailedEver(x, scope+"/Cont", len(h.Events)) {
					x.Report(&Violation{Property: "C07", Rule: "contcheck-not-rerun", Signature: "cont-rerun",
						Msg: fmt.Sprintf("while a sequence action of %s was executing its continuous checks sat idle from t=%ds to t=%ds (Delay %ds): they are no longer re-run", scope, m.since, now, delay)})
				}
			}
		}
		if busy || !seqInFlight {
			m.since = -1
		} else if m.since < 0 {
			m.since = now
		}
	}
}

// scopeEnded returns the event index at which the scope is known to be over: for a plan the return of Wait,
// for a block the first invocation that belongs to a later stage (a later block, or a plan post/deferred check),
// else the end of the log.
func scopeEndIdx(x *Exec, h *Hist, scope string) int {
	so := x.W.Objs[scope]
	n := len(h.Events)
	if so == nil {
		return n
	}
	planPath := fmt.Sprintf("P%d", so.Plan)
	end := n
	for i := range h.Events {
		e := &h.Events[i]
		if e.Gen != 0 {
			continue
		}
		if e.Kind == "APIRET" && e.Path == planPath && len(e.Out) >= 4 && e.Out[:4] == "wait" {
			if i < end {
				end = i
			}
		}
		if so.Kind == "block" && e.Kind == "INV" {
			oi := x.W.Objs[e.Path]
			if oi != nil && oi.Plan == so.Plan && ((oi.Block > so.Block) || (oi.Block < 0 && (oi.Group == "post" || oi.Group == "def"))) {
				if i < end {
					end = i
				}
			}
		}
	}
	return end
}

func (monC07) AtEnd(x *Exec) {
	if _, rec := recoveryMode(x); rec {
		monC07Crash(x)
		return
	}
	h := NewHist(x, 0)
	n := len(h.Events)
	if x.Outcome == "hang" {
		x.Report(&Violation{Property: "C07", Rule: "plan-never-ended", Signature: hangCause(x, h),
			Msg: "the plan did not reach a terminal state, so the deferred checks of the entered plan never ran"})
		return
	}
	if x.Outcome != "done" {
		return
	}
	for pi := range x.Sc.Plans {
		p, err := x.ReadPlan(pi)
		if err != nil {
			continue
		}
		v := View(p)
		planPath := fmt.Sprintf("P%d", pi)
		planStarted := false
		for i := range h.Events {
			if h.Events[i].Kind == "W" && h.Events[i].Path == planPath {
				planStarted = true
				break
			}
		}
		if !planStarted {
			continue
		}
		planBypassed := x.Sc.Plans[pi].Bypass != nil && h.groupPassed(x, planPath+"/By", n)
		for _, scope := range x.scopes() {
			so := x.W.Objs[scope]
			if so == nil || so.Plan != pi {
				continue
			}
			by, _, cont, _, def := x.scopeChecks(scope)
			st := v.Objs[scope]
			if st == nil {
				continue
			}
			entered := so.Kind == "plan"
			if so.Kind == "block" {
				for i := range h.Events {
					if h.Events[i].Kind == "W" && h.Events[i].Path == scope && h.Events[i].Status == "Running" {
						entered = true
						break
					}
				}
			}
			bypassed := (by != nil && h.groupPassed(x, scope+"/By", n)) || (so.Kind == "block" && planBypassed)
			// (a) a failed run of a continuous check fails the scope
			if cont != nil && entered && !bypassed {
				end := scopeEndIdx(x, h, scope)
				for _, a := range x.groupActions(scope + "/Cont") {
					for _, c := range h.Calls[a.Path] {
						if c.Returned && c.EndIdx < end && (c.PermFail() || (c.TransFail() && a.Act.Retries == 0)) {
							if st.Status != workflow.Failed {
								x.Report(&Violation{Property: "C07", Rule: "contcheck-failure-lost", Signature: "cont-lost",
									Msg: fmt.Sprintf("run #%d of continuous check %s failed while %s was executing, but %s is stored %s", c.N, a.Path, scope, scope, st.Status)})
							}
							if so.Kind == "plan" && st.Status == workflow.Failed {
								other := h.groupFailedEver(x, scope+"/Pre", n) || h.groupFailedEver(x, scope+"/Post", n) || h.groupFailedEver(x, scope+"/Def", n)
								for bi := range x.Sc.Plans[pi].Blocks {
									if bo := v.Objs[fmt.Sprintf("%s/B%d", planPath, bi)]; bo != nil && bo.Status == workflow.Failed {
										// the block may have failed on its own account: Block is then a truthful reason as well
										for _, sp := range x.seqPaths(pi, bi) {
											if h.seqAt(x, sp, n).Failed {
												other = true
											}
										}
										bp := fmt.Sprintf("%s/B%d", planPath, bi)
										if h.groupFailedEver(x, bp+"/Pre", n) || h.groupFailedEver(x, bp+"/Cont", n) || h.groupFailedEver(x, bp+"/Post", n) || h.groupFailedEver(x, bp+"/Def", n) {
											other = true
										}
									}
								}
								if !other && st.Reason != workflow.FRContCheck {
									x.Report(&Violation{Property: "C07", Rule: "contcheck-failure-wrong-reason", Signature: "cont-reason",
										Msg: fmt.Sprintf("a plan-level continuous check failed and no other plan-level check did, but the plan's reason is %s", st.Reason)})
								}
							}
						}
					}
				}
			}
			// (c) deferred checks exactly once for entered, non-bypassed scopes; never for bypassed ones
			if def != nil {
				for _, a := range x.groupActions(scope + "/Def") {
					cnt := len(h.Calls[a.Path])
					want := a.Act.Retries + 1
					switch {
					case entered && !bypassed && cnt == 0:
						x.Report(&Violation{Property: "C07", Rule: "deferred-check-not-run", Signature: "def-count",
							Msg: fmt.Sprintf("%s was entered (not bypassed) but its deferred check %s was never invoked; %s is stored %s", scope, a.Path, scope, st.Status)})
					case entered && !bypassed && cnt > want:
						x.Report(&Violation{Property: "C07", Rule: "deferred-check-run-twice", Signature: "def-count",
							Msg: fmt.Sprintf("deferred check %s was invoked %d times", a.Path, cnt)})
					case (bypassed || !entered) && cnt > 0:
						x.Report(&Violation{Property: "C07", Rule: "deferred-check-run-for-bypassed-scope", Signature: "def-count",
							Msg: fmt.Sprintf("%s was bypassed or never entered, yet its deferred check %s was invoked", scope, a.Path)})
					}
				}
				if entered && !bypassed && h.groupFailedEver(x, scope+"/Def", n) && st.Status != workflow.Failed {
					x.Report(&Violation{Property: "C07", Rule: "deferred-failure-lost", Signature: "def-lost",
						Msg: fmt.Sprintf("a deferred check of %s failed but it is stored %s", scope, st.Status)})
				}
			}
		}
	}
}

// monC07Crash: the statement across a crash. For a plan that the restarted process resumed: the deferred checks of every
// entered, not bypassed scope are terminal at the end, were not run again when they had durably passed, and are run at
// most once by the new process; a continuous check that was durably Failed at the crash still fails its scope.
func monC07Crash(x *Exec) {
	cs, _ := recoveryMode(x)
	if x.Outcome != "done" {
		return // hangs of a recovery are C10's findings
	}
	h := NewHist(x, x.W.Gen)
	for pi := range x.Sc.Plans {
		planPath := fmt.Sprintf("P%d", pi)
		cv := crashView(x, pi)
		if cv == nil || cv.Objs[planPath] == nil || cv.Objs[planPath].Status != workflow.Running {
			continue
		}
		p, err := x.ReadPlan(pi)
		if err != nil {
			continue
		}
		v := View(p)
		rep := func(rule, sig, format string, a ...any) {
			x.Report(&Violation{Property: "C07", Rule: rule, Signature: sig, Msg: fmt.Sprintf("after a crash at %d durable writes and recovery: ", cs.K) + fmt.Sprintf(format, a...)})
		}
		planBypassed := false
		if pby := v.Objs[planPath+"/By"]; pby != nil && pby.Status == workflow.Completed {
			planBypassed = true
		}
		for _, scope := range x.scopes() {
			so := x.W.Objs[scope]
			if so == nil || so.Plan != pi {
				continue
			}
			st := v.Objs[scope]
			if st == nil || st.Status == workflow.NotStarted || planBypassed {
				continue
			}
			by, _, cont, _, def := x.scopeChecks(scope)
			if by != nil {
				if bo := v.Objs[scope+"/By"]; bo != nil && bo.Status == workflow.Completed {
					continue
				}
			}
			if def != nil {
				d := v.Objs[scope+"/Def"]
				if d != nil && !terminal(d.Status) {
					rep("deferred-check-not-run", "def-across-crash", "%s was entered (stored %s) but its deferred checks are stored %s", scope, st.Status, d.Status)
				}
				for ai := range def.Actions {
					ap := fmt.Sprintf("%s/Def/A%d", scope, ai)
					n := len(h.Calls[ap])
					if n > 1 {
						rep("deferred-check-run-twice", "def-across-crash", "%s was invoked %d times by the restarted process", ap, n)
					}
					if cd := cv.Objs[scope+"/Def"]; cd != nil && cd.Status == workflow.Completed && n > 0 {
						rep("deferred-check-run-again", "def-across-crash", "%s was invoked again although the deferred checks of %s had durably passed before the crash", ap, scope)
					}
				}
			}
			if cont != nil {
				if cc := cv.Objs[scope+"/Cont"]; cc != nil && cc.Status == workflow.Failed && st.Status != workflow.Failed {
					rep("contcheck-failure-lost", "cont-across-crash", "the continuous checks of %s were durably Failed at the crash, yet %s is stored %s", scope, scope, st.Status)
				}
			}
		}
	}
}

// FamilyCont: continuous checks failing at their k-th run, at plan and/or block level, with time.
func FamilyCont(tier string) []*Scenario {
	var out []*Scenario
	maxK, maxSeq := 3, 2
	if tier == "thorough" {
		maxK, maxSeq = 4, 3
	}
	for _, level := range []string{"plan", "block", "both"} {
		for k := 1; k <= maxK; k++ {
			for nseq := 1; nseq <= maxSeq; nseq++ {
				for nact := 1; nact <= 2; nact++ {
					for _, withPre := range []bool{true, false} {
						if nseq == maxSeq && nact == 2 && tier != "thorough" && withPre {
							continue
						}
						ps := PlanSpec{Def: Chk(A()), Blocks: []BlockSpec{{Def: Chk(A()), Seqs: okSeqs(nseq, nact), Conc: 2}, {Seqs: okSeqs(1, 1)}}}
						b := &ps.Blocks[0]
						if withPre {
							ps.Pre = Chk(A())
							b.Pre = Chk(A())
						}
						if level == "plan" || level == "both" {
							ps.Cont = ChkD(2, FailAt(k))
						}
						if level == "block" || level == "both" {
							kk := k
							if level == "both" {
								kk = k + 1
							}
							b.Cont = ChkD(2, FailAt(kk))
						}
						sc := &Scenario{Family: "F-cont", Name: fmt.Sprintf("cont-%s-k%d-n%d-a%d-pre%v", level, k, nseq, nact, withPre),
							Plans: []PlanSpec{ps}, Time: true, MaxTicks: 6}
						out = append(out, sc)
						if nseq == 1 || (nseq == 2 && nact == 1 && !withPre) {
							// slow-plugin twin: by default time passes while a sequence action executes, so the
							// k-th run of the check falls inside the action even with no deviation at all
							tw := cloneScenario(sc)
							tw.Name += "-slow"
							tw.SlowPlugins = true
							tw.MaxTicks = k + 2
							out = append(out, tw)
						}
						if level != "block" && nseq == 2 && nact == 1 {
							// the engine's poll of the continuous-check results is a select with several ready cases:
							// explore the other poll order as well
							tw := cloneScenario(sc)
							tw.Name += "-sel2"
							tw.SelectOrder = 2
							out = append(out, tw)
						}
					}
				}
			}
		}
	}
	// a long-running action (never answers within the horizon): the checks must keep running
	// (the action overruns its 5 s timeout, so the plan still ends; Delay 1 s gives the checks four chances before that)
	out = append(out, &Scenario{Family: "F-cont", Name: "cont-long-action-block", Time: true, TimeoutRace: true, MaxTicks: 10,
		Plans: []PlanSpec{{Blocks: []BlockSpec{{Cont: ChkD(1, A()), Seqs: []SeqSpec{Seq(A(Overrun))}, Conc: 1}}}}})
	out = append(out, &Scenario{Family: "F-cont", Name: "cont-long-action-plan", Time: true, TimeoutRace: true, MaxTicks: 10,
		Plans: []PlanSpec{{Cont: ChkD(1, A()), Blocks: []BlockSpec{{Seqs: []SeqSpec{Seq(A(Overrun))}, Conc: 1}}}}})
	// passing continuous checks while the scope fails by another route, deferred checks present
	routes := map[string]func(ps *PlanSpec){
		"pre":   func(ps *PlanSpec) { ps.Blocks[0].Pre = Chk(A(Perm)) },
		"seq":   func(ps *PlanSpec) { ps.Blocks[0].Seqs[0].Actions[0] = A(Perm) },
		"post":  func(ps *PlanSpec) { ps.Blocks[0].Post = Chk(A(Perm)) },
		"def":   func(ps *PlanSpec) { ps.Blocks[0].Def = Chk(A(Perm)) },
		"ppre":  func(ps *PlanSpec) { ps.Pre = Chk(A(Perm)) },
		"ppost": func(ps *PlanSpec) { ps.Post = Chk(A(Perm)) },
		"pdef":  func(ps *PlanSpec) { ps.Def = Chk(A(Perm)) },
		"none":  func(ps *PlanSpec) {},
	}
	for _, name := range sortedKeys(routes) {
		ps := PlanSpec{Pre: Chk(A()), Cont: ChkD(2, A()), Def: Chk(A()),
			Blocks: []BlockSpec{{Pre: Chk(A()), Cont: ChkD(2, A()), Def: Chk(A()), Seqs: okSeqs(2, 1), Conc: 2}, {Seqs: okSeqs(1, 1)}}}
		routes[name](&ps)
		out = append(out, &Scenario{Family: "F-cont", Name: "cont-ok-route-" + name, Plans: []PlanSpec{ps}, Time: true, MaxTicks: 5})
	}
	// Delay left unset on the continuous checks (the engine then uses a 1 ns ticker): the initial run is still a gate
	for _, lv := range []string{"block", "plan"} {
		for _, fails := range []bool{true, false} {
			for _, withPre := range []bool{false, true} {
				ps := PlanSpec{Blocks: []BlockSpec{{Seqs: okSeqs(1, 2), Conc: 1}}}
				c := ChkD(-1, A())
				if fails {
					c = ChkD(-1, A(Perm))
				}
				if lv == "block" {
					ps.Blocks[0].Cont = c
					if withPre {
						ps.Blocks[0].Pre = Chk(A())
					}
				} else {
					ps.Cont = c
					if withPre {
						ps.Pre = Chk(A())
					}
				}
				out = append(out, &Scenario{Family: "F-cont", Name: fmt.Sprintf("cont-nodelay-%s-fail%v-pre%v", lv, fails, withPre), Plans: []PlanSpec{ps}, Time: true, MaxTicks: 3})
			}
		}
	}
	// minimal versions: a passing continuous check (block or plan level) whose later run is in flight at the moment
	// the scope fails by another route; small enough for every order; the slow twin lets time pass by default while
	// the sequence action executes, so a run of the loop is in flight without any deviation
	for _, lv := range []string{"block", "plan"} {
		for _, route := range []string{"seq", "post", "def"} {
			ps := PlanSpec{Blocks: []BlockSpec{{Seqs: okSeqs(1, 1), Conc: 1}}}
			b := &ps.Blocks[0]
			if lv == "block" {
				b.Cont = ChkD(2, A())
			} else {
				ps.Cont = ChkD(2, A())
			}
			switch route {
			case "seq":
				b.Seqs[0].Actions[0] = A(Perm)
			case "post":
				if lv == "block" {
					b.Post = Chk(A(Perm))
				} else {
					ps.Post = Chk(A(Perm))
				}
			case "def":
				if lv == "block" {
					b.Def = Chk(A(Perm))
				} else {
					ps.Def = Chk(A(Perm))
				}
			}
			sc := &Scenario{Family: "F-cont", Name: fmt.Sprintf("cont-min-%s-%s", lv, route), Plans: []PlanSpec{ps}, Time: true, MaxTicks: 3}
			out = append(out, sc)
			tw := cloneScenario(sc)
			tw.Name += "-slow"
			tw.SlowPlugins = true
			out = append(out, tw)
		}
	}
	return out
}

func init() {
	register(&PropDef{
		ID:    "C07",
		Level: "model_checking",
		Rule: "family F-cont (continuous check failing at its k-th run, k<=3(4), at plan/block/both levels, 1-2(3) sequences x 1-2 actions, with/without pre-checks; TICK is an explorer action so every position of the failing run relative to sequence boundaries is reached; " +
			"plus passing continuous checks with every other failure route and deferred checks present), F-chk, sharp scenarios and the crash layer (every durable state of the crash scenarios with deferred or continuous checks restarted: deferred checks of entered scopes terminal, not re-run once durably passed, a durably failed continuous check still fails its scope); every order of visible operations and ticks within the deviation bound and tick horizon; " +
			"distinct_nontrivial = distinct states in which two or more logical threads were enabled",
		Assumptions: []string{"a free worker-pool runner always exists (64 runners)", "I/O granularity", "tick horizon 6 per execution; no plugin call outlasts its (1 h) timeout",
			"a failing continuous-check run that returns only after the scope is over is C04's concern, not counted here"},
		NewMon: func(sc *Scenario) Monitor { return monC07{} },
		Items: func(tier string) []WorkItem {
			var items []WorkItem
			b := 1
			if tier == "thorough" {
				b = 2
			}
			for _, sc := range FamilyCont(tier) {
				if tier == "thorough" {
					items = append(items, exploreCap("C07", sc, b, true, 900))
				} else {
					// quick: every deviation costs (no free switches); the thorough tier adds them
					items = append(items, exploreCap("C07", sc, b, false, 30))
				}
			}
			for _, sc := range FamilyChk(tier) {
				items = append(items, explore("C07", sc, b, true))
			}
			// across a crash: every durable state of the crash scenarios with deferred or continuous checks is restarted
			var crash []*Scenario
			for _, sc := range FamilyCrash(tier) {
				n := sc.Name
				if strings.Contains(n, "-def") || strings.Contains(n, "-cont-") || strings.Contains(n, "cont-fails") || strings.Contains(n, "cont-rerun") || n == "crash-all-groups" || n == "crash-bdef-fails" {
					crash = append(crash, sc)
				}
			}
			items = append(items, crashItems("C07", tier, crash)...)
			for _, sc := range FamilySharp(tier) {
				items = append(items, explore("C07", sc, b, true))
			}
			return items
		},
	})
}
