package mc

import (
	"encoding/json"
	"fmt"
	"strings"
	"time"

	"github.com/element-of-surprise/coercion/workflow"
)

// Outcome codes of one plugin invocation (scripted per action, per invocation number).
const (
	OK         = "ok" // success with a well typed response
	Perm       = "F"  // permanent error
	Trans      = "T"  // transient (retryable) error
	WrongType  = "X"  // success with a response of the wrong type
	Overrun    = "O"  // never answers; returns only when its context is cancelled
	NilResp    = "N"  // success with a nil response
	Late       = "L"  // ignores the cancellation of its context and answers ok whenever it is released (possibly after its timeout)
	RespPerm   = "Bp" // a well typed response together with a permanent error (a partial result): a permanent failure
	RespTrans  = "Bt" // a well typed response together with a transient error: a retryable failure
	WrongTrans = "Xt" // a response of the wrong type together with a transient error: permanent failure, response not stored
	WrongPerm  = "Xp" // a response of the wrong type together with a permanent error: permanent failure, response not stored
	WrongNamed = "Xn" // a response of another type that prints like the declared one (same package and type name, other import path)
	TransZero  = "Tz" // a transient error without any detail (&plugins.Error{}): still an error
	PermWrap   = "Fw" // a permanent error that wraps a non-permanent cause: the outer flag decides, a permanent failure
)

// ActSpec describes one action: the outcome of its k-th invocation in this process world is
// Script[min(k,len-1)]; empty script means always ok.
type ActSpec struct {
	Script  []string `json:"s,omitempty"`
	Retries int      `json:"r,omitempty"`
	Plugin  string   `json:"p,omitempty"` // "" = act (sequences) / chk (checks)
}

func (a ActSpec) outcome(k int) string {
	if len(a.Script) == 0 {
		return OK
	}
	if k >= len(a.Script) {
		k = len(a.Script) - 1
	}
	return a.Script[k]
}

// Pure reports whether the outcome is a function of the action alone.
func (a ActSpec) Pure() bool {
	for _, s := range a.Script {
		if s != a.Script[0] {
			return false
		}
	}
	return true
}

type ChecksSpec struct {
	Actions []ActSpec `json:"a"`
	Delay   int       `json:"d,omitempty"` // seconds, continuous checks only (0 = 2 s, negative = really unset)
}

type SeqSpec struct {
	Actions []ActSpec `json:"a"`
}

type BlockSpec struct {
	Bypass *ChecksSpec `json:"by,omitempty"`
	Pre    *ChecksSpec `json:"pre,omitempty"`
	Cont   *ChecksSpec `json:"cont,omitempty"`
	Post   *ChecksSpec `json:"post,omitempty"`
	Def    *ChecksSpec `json:"def,omitempty"`
	Seqs   []SeqSpec   `json:"seqs"`
	Conc   int         `json:"c,omitempty"`
	Tol    int         `json:"t,omitempty"`
	EntDel int         `json:"ent,omitempty"`
	ExtDel int         `json:"ext,omitempty"`
}

type PlanSpec struct {
	Bypass *ChecksSpec `json:"by,omitempty"`
	Pre    *ChecksSpec `json:"pre,omitempty"`
	Cont   *ChecksSpec `json:"cont,omitempty"`
	Post   *ChecksSpec `json:"post,omitempty"`
	Def    *ChecksSpec `json:"def,omitempty"`
	Blocks []BlockSpec `json:"blocks"`
}

// APICall is one call of an API driver thread.
type APICall struct {
	Op   string `json:"op"`            // submit start wait plan status sleep
	Plan int    `json:"p"`             // index into Scenario.Plans; -1 = unknown id
	Arg  int    `json:"arg,omitempty"` // sleep seconds / status items to consume
}

func (c APICall) String() string {
	if c.Arg != 0 {
		return fmt.Sprintf("%s(P%d,%d)", c.Op, c.Plan, c.Arg)
	}
	return fmt.Sprintf("%s(P%d)", c.Op, c.Plan)
}

// Scenario is one closed system to explore.
type Scenario struct {
	Name    string      `json:"name"`
	Family  string      `json:"family,omitempty"`
	Plans   []PlanSpec  `json:"plans"`
	Threads [][]APICall `json:"threads,omitempty"` // default: one thread per plan doing start,wait
	// Time allows TICK as a deviation while other operations are enabled.
	Time bool `json:"time,omitempty"`
	// TimeoutRace allows TICK while a (releasable) plugin call is parked (answer vs timeout).
	TimeoutRace bool `json:"timeoutRace,omitempty"`
	// MaxTicks bounds the number of TICK steps of one execution (horizon). 0 = default.
	MaxTicks int `json:"maxTicks,omitempty"`
	// PostWaitTicks is the number of ticks taken after everything finished, to observe late activity.
	PostWaitTicks int `json:"postTicks,omitempty"`
	// Presubmit: plans are submitted in the setup phase (ungated). Otherwise threads must submit.
	NoPresubmit bool `json:"noPresubmit,omitempty"`
	// MaxSubmitSec / MaxLastUpdateSec configure the workstream (0 = default).
	MaxSubmitSec     int `json:"maxSubmit,omitempty"`
	MaxLastUpdateSec int `json:"maxLastUpdate,omitempty"`
	// Crash: enumerate crash points (handled by the crash layer).
	Crash bool `json:"crash,omitempty"`
	// Fine enables engine yield points (needs the instrumented overlay build).
	Fine bool `json:"fine,omitempty"`
	// BootStates, when set, prepares the store before the Workstream is constructed (C11): one entry per plan out of
	// notstarted | running | completed | failed; the last recorded activity of every started plan is BootAgeSec
	// seconds before the Workstream is constructed. No API thread is started.
	BootStates []string `json:"bootStates,omitempty"`
	BootAgeSec int      `json:"bootAge,omitempty"`
	// CancelStartCtx: the context handed to Start is cancelled as soon as Start has returned.
	CancelStartCtx bool `json:"cancelStartCtx,omitempty"`
	// SlowReads: a Read issued by an API caller parks a second time after the store has answered (kind RR), so that
	// everything else can happen between the answer and the caller acting on it.
	SlowReads bool `json:"slowReads,omitempty"`
	// CrashAgeSec (crash scenarios): the restart after a crash happens this many seconds (plus one) after the crash instant.
	CrashAgeSec int  `json:"crashAge,omitempty"`
	NoRecovery  bool `json:"noRecovery,omitempty"`
	// SlowPlugins makes "time passes" the default choice while a sequence action's plugin call is parked (the plugin
	// is slow by default and answering is the deviation); the tick budget bounds it.
	SlowPlugins bool `json:"slowPlugins,omitempty"`
	// SelectOrder fixes the poll order of Go's select statements for the whole execution (the runtime's random
	// order is a source of nondeterminism the harness owns): 0/1 = source order, 2 = last case first.
	SelectOrder int `json:"selectOrder,omitempty"`
	// WakeFirst selects the second internal scheduling policy for the whole execution: a goroutine that makes another
	// one runnable (channel hand-off, close, semaphore release) yields to it at once instead of running on to its own
	// next blocking point (runtime patch, see tools/mkoverlay.sh). Between two visible operations the engine's
	// goroutines then interleave in the opposite order.
	WakeFirst bool `json:"wakeFirst,omitempty"`
	// GateSetup gates the storage operations of Submit as well.
	GateSetup bool `json:"gateSetup,omitempty"`
}

func (s *Scenario) JSON() string {
	b, _ := json.Marshal(s)
	return string(b)
}

func (s *Scenario) maxTicks() int {
	if s.MaxTicks > 0 {
		return s.MaxTicks
	}
	return 12
}

// ---------------------------------------------------------------------------------------------
// Compact DSL rendering (for humans; the JSON is what is replayed).

func (c *ChecksSpec) dsl() string {
	if c == nil {
		return "-"
	}
	var parts []string
	for _, a := range c.Actions {
		parts = append(parts, a.dsl())
	}
	s := strings.Join(parts, ",")
	if c.Delay > 0 {
		s += fmt.Sprintf("/%ds", c.Delay)
	}
	return s
}

func (a ActSpec) dsl() string {
	s := strings.Join(a.Script, ">")
	if s == "" {
		s = "ok"
	}
	if a.Retries > 0 {
		s += fmt.Sprintf("^r%d", a.Retries)
	}
	if a.Plugin != "" {
		s += "@" + a.Plugin
	}
	return s
}

func checksDSL(by, pre, cont, post, def *ChecksSpec) string {
	if by == nil && pre == nil && cont == nil && post == nil && def == nil {
		return ""
	}
	return fmt.Sprintf("[by:%s pre:%s cont:%s post:%s def:%s]", by.dsl(), pre.dsl(), cont.dsl(), post.dsl(), def.dsl())
}

func (p PlanSpec) DSL() string {
	var b strings.Builder
	b.WriteString("P" + checksDSL(p.Bypass, p.Pre, p.Cont, p.Post, p.Def) + "{")
	for i, bl := range p.Blocks {
		if i > 0 {
			b.WriteString(" ")
		}
		fmt.Fprintf(&b, "B%d(c=%d,t=%d", i, bl.Conc, bl.Tol)
		if bl.EntDel > 0 || bl.ExtDel > 0 {
			fmt.Fprintf(&b, ",ent=%d,ext=%d", bl.EntDel, bl.ExtDel)
		}
		b.WriteString(")" + checksDSL(bl.Bypass, bl.Pre, bl.Cont, bl.Post, bl.Def) + "{")
		for j, s := range bl.Seqs {
			if j > 0 {
				b.WriteString(" ")
			}
			var as []string
			for _, a := range s.Actions {
				as = append(as, a.dsl())
			}
			fmt.Fprintf(&b, "S%d:%s", j, strings.Join(as, ","))
		}
		b.WriteString("}")
	}
	b.WriteString("}")
	return b.String()
}

func (s *Scenario) DSL() string {
	var parts []string
	for _, p := range s.Plans {
		parts = append(parts, p.DSL())
	}
	out := strings.Join(parts, " || ")
	if s.WakeFirst {
		out += " [wake-first]"
	}
	if len(s.Threads) > 0 {
		var ts []string
		for _, t := range s.Threads {
			var cs []string
			for _, c := range t {
				cs = append(cs, c.String())
			}
			ts = append(ts, strings.Join(cs, ";"))
		}
		out += " api<" + strings.Join(ts, " | ") + ">"
	}
	return out
}

// ---------------------------------------------------------------------------------------------
// Building workflow.Plan objects out of specs.

// Req is the request type of the harness plugins.
type Req struct {
	Path string
}

// Resp is the response type of the harness plugins.
type Resp struct {
	Path string
	N    int
}

// OtherResp is a response of a type the plugin does not declare.
type OtherResp struct {
	Bogus string
}

const (
	PlugAct = "act"
	PlugChk = "chk"
)

// ObjInfo describes one object of a built plan.
type ObjInfo struct {
	Path   string
	Kind   string // plan checks block seq action
	Plan   int
	Scope  string // path of the enclosing plan or block ("P0" or "P0/B1")
	Group  string // for checks and check actions: by pre cont post def; "" otherwise
	Block  int    // -1 when not inside a block
	Seq    int    // -1 when not inside a sequence
	Idx    int    // action index inside its parent
	Act    *ActSpec
	Parent string
}

func buildChecks(c *ChecksSpec, path string, reg func(ObjInfo, any), base ObjInfo, group string) *workflow.Checks {
	if c == nil {
		return nil
	}
	delay := c.Delay
	if group == "cont" && delay == 0 {
		delay = 2
	}
	if delay < 0 {
		delay = 0 // the caller left Delay unset: the engine then re-runs the check as fast as it can (1 ns ticker)
	}
	ch := &workflow.Checks{Delay: time.Duration(delay) * time.Second}
	ci := base
	ci.Path, ci.Kind, ci.Group, ci.Parent = path, "checks", group, base.Path
	reg(ci, ch)
	for i := range c.Actions {
		a := &c.Actions[i]
		ap := fmt.Sprintf("%s/A%d", path, i)
		plug := a.Plugin
		if plug == "" {
			plug = PlugChk
		}
		act := &workflow.Action{Name: ap, Descr: ap, Plugin: plug, Timeout: 5 * time.Second, Retries: a.Retries, Req: Req{Path: ap}}
		ai := ci
		ai.Path, ai.Kind, ai.Idx, ai.Act, ai.Parent = ap, "action", i, a, path
		reg(ai, act)
		ch.Actions = append(ch.Actions, act)
	}
	return ch
}

// BuildPlan constructs the workflow.Plan for spec number pi. reg is called for every object.
func BuildPlan(ps *PlanSpec, pi int, reg func(ObjInfo, any)) *workflow.Plan {
	pp := fmt.Sprintf("P%d", pi)
	p := &workflow.Plan{Name: pp, Descr: pp}
	pinfo := ObjInfo{Path: pp, Kind: "plan", Plan: pi, Scope: pp, Block: -1, Seq: -1}
	reg(pinfo, p)
	p.BypassChecks = buildChecks(ps.Bypass, pp+"/By", reg, pinfo, "by")
	p.PreChecks = buildChecks(ps.Pre, pp+"/Pre", reg, pinfo, "pre")
	p.ContChecks = buildChecks(ps.Cont, pp+"/Cont", reg, pinfo, "cont")
	p.PostChecks = buildChecks(ps.Post, pp+"/Post", reg, pinfo, "post")
	p.DeferredChecks = buildChecks(ps.Def, pp+"/Def", reg, pinfo, "def")
	for bi := range ps.Blocks {
		bs := &ps.Blocks[bi]
		bp := fmt.Sprintf("%s/B%d", pp, bi)
		b := &workflow.Block{Name: bp, Descr: bp, Concurrency: bs.Conc, ToleratedFailures: bs.Tol,
			EntranceDelay: time.Duration(bs.EntDel) * time.Second, ExitDelay: time.Duration(bs.ExtDel) * time.Second}
		binfo := ObjInfo{Path: bp, Kind: "block", Plan: pi, Scope: bp, Block: bi, Seq: -1, Parent: pp}
		reg(binfo, b)
		b.BypassChecks = buildChecks(bs.Bypass, bp+"/By", reg, binfo, "by")
		b.PreChecks = buildChecks(bs.Pre, bp+"/Pre", reg, binfo, "pre")
		b.ContChecks = buildChecks(bs.Cont, bp+"/Cont", reg, binfo, "cont")
		b.PostChecks = buildChecks(bs.Post, bp+"/Post", reg, binfo, "post")
		b.DeferredChecks = buildChecks(bs.Def, bp+"/Def", reg, binfo, "def")
		for si := range bs.Seqs {
			ss := &bs.Seqs[si]
			sp := fmt.Sprintf("%s/S%d", bp, si)
			s := &workflow.Sequence{Name: sp, Descr: sp}
			sinfo := binfo
			sinfo.Path, sinfo.Kind, sinfo.Seq, sinfo.Parent = sp, "seq", si, bp
			reg(sinfo, s)
			for ai := range ss.Actions {
				as := &ss.Actions[ai]
				ap := fmt.Sprintf("%s/A%d", sp, ai)
				plug := as.Plugin
				if plug == "" {
					plug = PlugAct
				}
				a := &workflow.Action{Name: ap, Descr: ap, Plugin: plug, Timeout: 5 * time.Second, Retries: as.Retries, Req: Req{Path: ap}}
				ainfo := sinfo
				ainfo.Path, ainfo.Kind, ainfo.Idx, ainfo.Act, ainfo.Parent = ap, "action", ai, as, sp
				reg(ainfo, a)
				s.Actions = append(s.Actions, a)
			}
			b.Sequences = append(b.Sequences, s)
		}
		p.Blocks = append(p.Blocks, b)
	}
	return p
}

// Helpers to write specs tersely.

func A(script ...string) ActSpec { return ActSpec{Script: script} }

func AR(retries int, script ...string) ActSpec { return ActSpec{Script: script, Retries: retries} }

func Seq(actions ...ActSpec) SeqSpec { return SeqSpec{Actions: actions} }

func Chk(actions ...ActSpec) *ChecksSpec { return &ChecksSpec{Actions: actions} }

func ChkD(delay int, actions ...ActSpec) *ChecksSpec {
	return &ChecksSpec{Actions: actions, Delay: delay}
}

// FailAt returns a script that is ok for k-1 invocations and fails permanently at the k-th (1-based), then ok... no:
// after the failing run the check is not run again by a correct engine, so the tail repeats the failure.
func FailAt(k int) ActSpec {
	s := make([]string, 0, k)
	for i := 1; i < k; i++ {
		s = append(s, OK)
	}
	s = append(s, Perm)
	return ActSpec{Script: s}
}
