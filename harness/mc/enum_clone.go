package mc

import (
	"context"
	"fmt"
	"reflect"
	"sort"
	"strings"
	"sync"
	"time"

	coercion "github.com/element-of-surprise/coercion"
	"github.com/element-of-surprise/coercion/plugins"
	"github.com/element-of-surprise/coercion/plugins/registry"
	"github.com/element-of-surprise/coercion/workflow"
	"github.com/element-of-surprise/coercion/workflow/storage/sqlite"
	"github.com/element-of-surprise/coercion/workflow/utils/clone"
	bctx "github.com/gostdlib/base/context"
	"github.com/gostdlib/base/retry/exponential"
)

// C18: clones are deep, definition-preserving and resubmittable.

type CInner struct {
	Note  string
	Nums  []int
	Token string `coerce:"secure"`
}

// CReq is passed BY VALUE and holds reference data at several depths.
type CReq struct {
	Name   string
	Tags   []string
	Labels map[string]string
	Inner  *CInner
	Items  []CInner
	ByName map[string]*CInner
	Token  string `coerce:"secure"`
}

type CResp struct {
	Out   []string
	Inner *CInner
	Token string `coerce:"secure"`
}

type clonePlug struct {
	simplePlug
	fail  bool
	mu    sync.Mutex
	calls map[string]int // invocations per action (request name)
}

// The retry back-off runs in real time here (no bubble): keep it at a millisecond.
func (p *clonePlug) RetryPolicy() exponential.Policy {
	return exponential.Policy{InitialInterval: time.Millisecond, Multiplier: 2, MaxInterval: 2 * time.Millisecond}
}

func (p *clonePlug) ValidateReq(req any) error {
	switch req.(type) {
	case CReq, *CReq:
		return nil
	}
	return fmt.Errorf("bad request type %T", req)
}
func (p *clonePlug) Request() any  { return CReq{} }
func (p *clonePlug) Response() any { return CResp{} }
func (p *clonePlug) Execute(ctx context.Context, req any) (any, *plugins.Error) {
	name := ""
	switch r := req.(type) {
	case CReq:
		name = r.Name
	case *CReq:
		name = r.Name
	}
	p.mu.Lock()
	if p.calls == nil {
		p.calls = map[string]int{}
	}
	n := p.calls[name]
	p.calls[name]++
	p.mu.Unlock()
	if p.fail {
		// retried once (Retries is 1): two different failed attempts
		return nil, &plugins.Error{Message: fmt.Sprintf("failed, try %d", n), Wrapped: &plugins.Error{Message: "inner"}}
	}
	if n == 0 && strings.HasSuffix(name, "/a0") && !p.check {
		// the first action of every sequence needs a second attempt: executed plans carry multi-attempt actions
		return nil, &plugins.Error{Message: "transient first try", Wrapped: &plugins.Error{Message: "inner"}}
	}
	return CResp{Out: []string{"a", "b"}, Inner: &CInner{Note: "n", Nums: []int{1}, Token: "resp-secret"}, Token: "resp-secret"}, nil
}

func cloneRegistry() *registry.Register {
	reg := registry.New()
	reg.MustRegister(&clonePlug{simplePlug: simplePlug{name: "act"}})
	reg.MustRegister(&clonePlug{simplePlug: simplePlug{name: "chk", check: true}})
	reg.MustRegister(&clonePlug{simplePlug: simplePlug{name: "fails"}, fail: true})
	return reg
}

func cReq(name string, ptr bool) any {
	r := CReq{Name: name, Tags: []string{"t1", name}, Labels: map[string]string{"k": name}, Inner: &CInner{Note: "in-" + name, Nums: []int{1, 2}, Token: "tok"},
		Items: []CInner{{Note: "i0", Nums: []int{3}, Token: "tok"}}, ByName: map[string]*CInner{"x": {Note: "bk", Token: "tok"}}, Token: "tok-" + name}
	if ptr {
		return &r
	}
	return r
}

// cloneShape: structure and which action fails (for the Failed state).
type cloneShape struct {
	Blocks  int  `json:"blocks"`
	Seqs    int  `json:"seqs"`
	Actions int  `json:"actions"`
	Checks  int  `json:"checks"` // 0 none, 1 plan pre+post, 2 block cont+deferred, 3 all but bypass, 4 passing bypass on block 0 (+pre), 5 passing bypass on the plan
	PtrReq  bool `json:"ptrReq"`
}

func (s cloneShape) build(failing bool) *workflow.Plan {
	act := func(name, plug string) *workflow.Action {
		return &workflow.Action{Name: name, Descr: "d:" + name, Plugin: plug, Timeout: 7 * time.Second, Retries: 1, Req: cReq(name, s.PtrReq)}
	}
	chk := func(name string) *workflow.Checks {
		return &workflow.Checks{Delay: 3 * time.Second, Actions: []*workflow.Action{act(name+"/a0", "chk")}}
	}
	p := &workflow.Plan{Name: "plan", Descr: "descr", GroupID: workflow.NewV7(), Meta: []byte("meta")}
	if s.Checks == 1 || s.Checks == 3 {
		p.PreChecks, p.PostChecks = chk("p/pre"), chk("p/post")
	}
	if s.Checks == 3 {
		p.BypassChecks, p.ContChecks, p.DeferredChecks = nil, chk("p/cont"), chk("p/def")
	}
	if s.Checks == 5 {
		// the check plugin answers ok, so once executed the whole plan is bypassed
		p.BypassChecks, p.DeferredChecks = chk("p/by"), chk("p/def")
	}
	for bi := 0; bi < s.Blocks; bi++ {
		bn := fmt.Sprintf("b%d", bi)
		b := &workflow.Block{Name: bn, Descr: "d:" + bn, EntranceDelay: 0, ExitDelay: 0, Concurrency: 2, ToleratedFailures: 1}
		if bi == 0 && s.Checks == 4 {
			// once executed, block 0 is bypassed: Completed with untouched pre-checks and sequences
			b.BypassChecks, b.PreChecks = chk(bn+"/by"), chk(bn+"/pre")
		}
		if bi == 0 && (s.Checks == 2 || s.Checks == 3) {
			b.ContChecks, b.DeferredChecks = chk(bn+"/cont"), chk(bn+"/def")
		}
		if bi == 0 && s.Checks == 3 {
			b.PreChecks, b.PostChecks = chk(bn+"/pre"), chk(bn+"/post")
		}
		for si := 0; si < s.Seqs; si++ {
			sn := fmt.Sprintf("%s/s%d", bn, si)
			sq := &workflow.Sequence{Name: sn, Descr: "d:" + sn}
			for ai := 0; ai < s.Actions; ai++ {
				plug := "act"
				if failing && bi == s.Blocks-1 && si == s.Seqs-1 && ai == s.Actions-1 {
					plug = "fails"
				}
				sq.Actions = append(sq.Actions, act(fmt.Sprintf("%s/a%d", sn, ai), plug))
			}
			b.Sequences = append(b.Sequences, sq)
		}
		if failing {
			b.ToleratedFailures = 0
		}
		p.Blocks = append(p.Blocks, b)
	}
	return p
}

// executedPlan returns the plan in one of the execution states: fresh, submitted, completed, failed, running.
func executedPlan(s cloneShape, state string) (*workflow.Plan, error) {
	if state == "fresh" {
		return s.build(false), nil
	}
	ctx := bctx.Background()
	reg := cloneRegistry()
	sqliteSeq++
	v, err := sqlite.New(ctx, fmt.Sprintf("clone-%d", sqliteSeq), reg, sqlite.WithInMemory())
	if err != nil {
		return nil, err
	}
	defer v.Close(ctx)
	ws, err := coercion.New(ctx, reg, v, coercion.WithNoRecovery())
	if err != nil {
		return nil, err
	}
	p := s.build(state == "failed")
	id, err := ws.Submit(ctx, p)
	if err != nil {
		return nil, err
	}
	switch state {
	case "submitted":
		return ws.Plan(ctx, id)
	case "submitted-original":
		// the caller's own object after Submit has been through it (ids, state and the engine's unexported bookkeeping set)
		return p, nil
	case "completed", "failed":
		if err := ws.Start(ctx, id); err != nil {
			return nil, err
		}
		return ws.Wait(ctx, id)
	case "running":
		// a real submitted plan whose first block is half way: written through the engine's own vault
		got, err := ws.Plan(ctx, id)
		if err != nil {
			return nil, err
		}
		t := time.Now().UTC()
		got.State.Status, got.State.Start = workflow.Running, t
		b := got.Blocks[0]
		b.State.Status, b.State.Start = workflow.Running, t
		sq := b.Sequences[0]
		sq.State.Status, sq.State.Start = workflow.Running, t
		a := sq.Actions[0]
		a.State.Status, a.State.Start = workflow.Running, t
		a.Attempts = []*workflow.Attempt{
			{Err: &plugins.Error{Message: "transient", Wrapped: &plugins.Error{Message: "inner"}}, Start: t, End: t.Add(time.Second)},
			{Resp: CResp{Out: []string{"partial"}, Token: "resp-secret"}, Err: &plugins.Error{Message: "second try"}, Start: t.Add(2 * time.Second), End: t.Add(3 * time.Second)},
		}
		return got, nil
	}
	return nil, fmt.Errorf("unknown state %s", state)
}

// ---------------------------------------------------------------------------------------------
// Reflection helpers: canonical dump, shared-memory detection, mutation of every leaf.

var timeType = reflect.TypeOf(time.Time{})

// dump renders a value canonically, following pointers (no addresses), including unexported fields.
func dump(v reflect.Value, b *strings.Builder, depth int) {
	if depth > 40 {
		b.WriteString("<deep>")
		return
	}
	if !v.IsValid() {
		b.WriteString("<invalid>")
		return
	}
	if v.Type() == timeType {
		if v.CanInterface() {
			fmt.Fprintf(b, "time(%d)", v.Interface().(time.Time).UnixNano())
		} else {
			b.WriteString("time(?)")
		}
		return
	}
	switch v.Kind() {
	case reflect.Ptr:
		if v.IsNil() {
			b.WriteString("nil")
			return
		}
		if strings.Contains(v.Type().String(), "registry.Register") {
			b.WriteString("&register")
			return
		}
		b.WriteString("&")
		dump(v.Elem(), b, depth+1)
	case reflect.Interface:
		if v.IsNil() {
			b.WriteString("nil")
			return
		}
		fmt.Fprintf(b, "(%s)", v.Elem().Type())
		dump(v.Elem(), b, depth+1)
	case reflect.Struct:
		b.WriteString("{")
		for i := 0; i < v.NumField(); i++ {
			fmt.Fprintf(b, "%s:", v.Type().Field(i).Name)
			dump(v.Field(i), b, depth+1)
			b.WriteString(",")
		}
		b.WriteString("}")
	case reflect.Slice:
		if v.IsNil() {
			b.WriteString("nil[]")
			return
		}
		fallthrough
	case reflect.Array:
		b.WriteString("[")
		for i := 0; i < v.Len(); i++ {
			dump(v.Index(i), b, depth+1)
			b.WriteString(",")
		}
		b.WriteString("]")
	case reflect.Map:
		if v.IsNil() {
			b.WriteString("nilmap")
			return
		}
		keys := v.MapKeys()
		sort.Slice(keys, func(i, j int) bool { return fmt.Sprint(keys[i]) < fmt.Sprint(keys[j]) })
		b.WriteString("map[")
		for _, k := range keys {
			fmt.Fprintf(b, "%v:", k)
			dump(v.MapIndex(k), b, depth+1)
			b.WriteString(",")
		}
		b.WriteString("]")
	case reflect.String:
		fmt.Fprintf(b, "%q", v.String())
	case reflect.Bool:
		fmt.Fprintf(b, "%v", v.Bool())
	case reflect.Int, reflect.Int8, reflect.Int16, reflect.Int32, reflect.Int64:
		fmt.Fprintf(b, "%d", v.Int())
	case reflect.Uint, reflect.Uint8, reflect.Uint16, reflect.Uint32, reflect.Uint64:
		fmt.Fprintf(b, "%d", v.Uint())
	default:
		fmt.Fprintf(b, "<%s>", v.Kind())
	}
}

func dumpOf(x any) string {
	var b strings.Builder
	dump(reflect.ValueOf(x), &b, 0)
	return b.String()
}

// addresses collects the addresses of all mutable memory reachable from v: pointer targets, slice arrays, maps.
func addresses(v reflect.Value, out map[uintptr]string, path string, depth int) {
	if depth > 40 || !v.IsValid() {
		return
	}
	if v.Type() == timeType {
		return
	}
	switch v.Kind() {
	case reflect.Ptr:
		if v.IsNil() || strings.Contains(v.Type().String(), "registry.Register") {
			return
		}
		out[v.Pointer()] = path
		addresses(v.Elem(), out, path+"*", depth+1)
	case reflect.Interface:
		if !v.IsNil() {
			addresses(v.Elem(), out, path, depth+1)
		}
	case reflect.Struct:
		for i := 0; i < v.NumField(); i++ {
			addresses(v.Field(i), out, path+"."+v.Type().Field(i).Name, depth+1)
		}
	case reflect.Slice:
		if v.IsNil() || v.Len() == 0 {
			return
		}
		out[v.Pointer()] = path + "[]"
		for i := 0; i < v.Len(); i++ {
			addresses(v.Index(i), out, fmt.Sprintf("%s[%d]", path, i), depth+1)
		}
	case reflect.Map:
		if v.IsNil() {
			return
		}
		out[v.Pointer()] = path + "{}"
		for _, k := range v.MapKeys() {
			addresses(v.MapIndex(k), out, fmt.Sprintf("%s{%v}", path, k), depth+1)
		}
	}
}

func sharedMemory(a, b any) string {
	am, bm := map[uintptr]string{}, map[uintptr]string{}
	addresses(reflect.ValueOf(a), am, "orig", 0)
	addresses(reflect.ValueOf(b), bm, "clone", 0)
	for addr, p := range bm {
		if q, ok := am[addr]; ok {
			return fmt.Sprintf("%s and %s point to the same memory", q, p)
		}
	}
	return ""
}

// mutateAll changes every reachable settable leaf (strings, ints, bools, slice elements, map entries).
func mutateAll(v reflect.Value, depth int) {
	if depth > 40 || !v.IsValid() {
		return
	}
	if v.Type() == timeType {
		if v.CanSet() {
			v.Set(reflect.ValueOf(v.Interface().(time.Time).Add(time.Hour)))
		}
		return
	}
	switch v.Kind() {
	case reflect.Ptr:
		if !v.IsNil() && !strings.Contains(v.Type().String(), "registry.Register") {
			mutateAll(v.Elem(), depth+1)
		}
	case reflect.Interface:
		if v.IsNil() {
			return
		}
		e := v.Elem()
		switch e.Kind() {
		case reflect.Ptr, reflect.Map, reflect.Slice:
			mutateAll(e, depth+1)
		case reflect.Struct:
			// a struct held by value in an interface is not addressable: mutate a copy's reference data in place
			// (slices, maps and pointers inside it are shared with the held value) and store the copy back when possible
			cp := reflect.New(e.Type()).Elem()
			cp.Set(e)
			mutateAll(cp, depth+1)
			if v.CanSet() {
				v.Set(cp)
			}
		}
	case reflect.Struct:
		for i := 0; i < v.NumField(); i++ {
			if v.Type().Field(i).IsExported() {
				mutateAll(v.Field(i), depth+1)
			}
		}
	case reflect.Slice, reflect.Array:
		for i := 0; i < v.Len(); i++ {
			mutateAll(v.Index(i), depth+1)
		}
	case reflect.Map:
		for _, k := range v.MapKeys() {
			e := v.MapIndex(k)
			switch e.Kind() {
			case reflect.String:
				v.SetMapIndex(k, reflect.ValueOf(e.String()+"!").Convert(e.Type()))
			case reflect.Ptr, reflect.Map, reflect.Slice, reflect.Interface:
				mutateAll(e, depth+1)
			}
		}
	case reflect.String:
		if v.CanSet() {
			v.SetString(v.String() + "!")
		}
	case reflect.Int, reflect.Int8, reflect.Int16, reflect.Int32, reflect.Int64:
		if v.CanSet() {
			v.SetInt(v.Int() + 1)
		}
	case reflect.Uint, reflect.Uint8, reflect.Uint16, reflect.Uint32, reflect.Uint64:
		if v.CanSet() {
			v.SetUint(v.Uint() + 1)
		}
	case reflect.Bool:
		if v.CanSet() {
			v.SetBool(!v.Bool())
		}
	}
}

// ---------------------------------------------------------------------------------------------

type cloneCase struct {
	Shape       cloneShape `json:"shape"`
	State       string     `json:"state"`
	KeepState   bool       `json:"keepState"`
	KeepSecrets bool       `json:"keepSecrets"`
	Target      int        `json:"target"` // object index in walking order whose clone function is called (0 = the plan)
}

func (c cloneCase) String() string {
	return fmt.Sprintf("%+v state=%s keepState=%v keepSecrets=%v target=obj%d", c.Shape, c.State, c.KeepState, c.KeepSecrets, c.Target)
}

func scrubbed(req any) string {
	// what a definition comparison may ignore when secrets are not kept: secure-tagged leaves
	d := dumpOf(req)
	for _, s := range []string{"tok", "resp-secret", clone.SecureStr} {
		d = strings.ReplaceAll(d, s, "#")
	}
	return d
}

func defDiff(o, c any, keepSecrets bool) string {
	norm := func(r any) string {
		if keepSecrets {
			return dumpOf(r)
		}
		return scrubDump(r)
	}
	switch ov := o.(type) {
	case *workflow.Plan:
		cv := c.(*workflow.Plan)
		if ov.Name != cv.Name || ov.Descr != cv.Descr || ov.GroupID != cv.GroupID || string(ov.Meta) != string(cv.Meta) {
			return "plan name/descr/group/meta differ"
		}
	case *workflow.Checks:
		cv := c.(*workflow.Checks)
		if ov.Delay != cv.Delay || len(ov.Actions) != len(cv.Actions) {
			return "checks delay / number of actions differ"
		}
	case *workflow.Block:
		cv := c.(*workflow.Block)
		if ov.Name != cv.Name || ov.Descr != cv.Descr || ov.EntranceDelay != cv.EntranceDelay || ov.ExitDelay != cv.ExitDelay || ov.Concurrency != cv.Concurrency || ov.ToleratedFailures != cv.ToleratedFailures {
			return fmt.Sprintf("block %q: name/descr/delays/concurrency/tolerance differ", ov.Name)
		}
	case *workflow.Sequence:
		cv := c.(*workflow.Sequence)
		if ov.Name != cv.Name || ov.Descr != cv.Descr || len(ov.Actions) != len(cv.Actions) {
			return fmt.Sprintf("sequence %q: name/descr/number of actions differ", ov.Name)
		}
	case *workflow.Action:
		cv := c.(*workflow.Action)
		if cv == nil {
			return fmt.Sprintf("action %q is missing from the clone", ov.Name)
		}
		if ov.Name != cv.Name || ov.Descr != cv.Descr || ov.Plugin != cv.Plugin || ov.Timeout != cv.Timeout || ov.Retries != cv.Retries {
			return fmt.Sprintf("action %q: name/descr/plugin/timeout/retries differ", ov.Name)
		}
		if norm(ov.Req) != norm(cv.Req) {
			return fmt.Sprintf("action %q: request differs: %s vs %s", ov.Name, norm(ov.Req), norm(cv.Req))
		}
	}
	return ""
}

// scrubDump dumps a value with every secure-tagged field blanked (so original and scrubbed clone compare equal).
func scrubDump(x any) string {
	var b strings.Builder
	var rec func(v reflect.Value, depth int)
	rec = func(v reflect.Value, depth int) {
		if depth > 40 || !v.IsValid() {
			return
		}
		switch v.Kind() {
		case reflect.Ptr, reflect.Interface:
			if v.IsNil() {
				b.WriteString("nil")
				return
			}
			rec(v.Elem(), depth+1)
		case reflect.Struct:
			if v.Type() == timeType {
				b.WriteString("time")
				return
			}
			b.WriteString("{")
			for i := 0; i < v.NumField(); i++ {
				f := v.Type().Field(i)
				if strings.Contains(f.Tag.Get("coerce"), "secure") {
					b.WriteString(f.Name + ":#,")
					continue
				}
				b.WriteString(f.Name + ":")
				rec(v.Field(i), depth+1)
				b.WriteString(",")
			}
			b.WriteString("}")
		case reflect.Slice, reflect.Array:
			b.WriteString("[")
			for i := 0; i < v.Len(); i++ {
				rec(v.Index(i), depth+1)
				b.WriteString(",")
			}
			b.WriteString("]")
		case reflect.Map:
			keys := v.MapKeys()
			sort.Slice(keys, func(i, j int) bool { return fmt.Sprint(keys[i]) < fmt.Sprint(keys[j]) })
			b.WriteString("map[")
			for _, k := range keys {
				fmt.Fprintf(&b, "%v:", k)
				rec(v.MapIndex(k), depth+1)
				b.WriteString(",")
			}
			b.WriteString("]")
		default:
			fmt.Fprintf(&b, "%v", v)
		}
	}
	rec(reflect.ValueOf(x), 0)
	return b.String()
}

func stateOf(o any) (*workflow.State, [16]byte) {
	switch t := o.(type) {
	case *workflow.Plan:
		return t.State, t.ID
	case *workflow.Checks:
		return t.State, t.ID
	case *workflow.Block:
		return t.State, t.ID
	case *workflow.Sequence:
		return t.State, t.ID
	case *workflow.Action:
		return t.State, t.ID
	}
	return nil, [16]byte{}
}

func checkCloneCase(c cloneCase) (rule, sig, msg string) {
	defer func() {
		if r := recover(); r != nil {
			rule, sig, msg = "clone-panicked", panicClass(fmt.Sprint(r)), fmt.Sprintf("%s: panic: %v", c, r)
		}
	}()
	orig, err := executedPlan(c.Shape, c.State)
	if err != nil {
		return "harness", "executed-plan", fmt.Sprintf("%s: %v", c, err)
	}
	objs := listObjects(orig)
	if c.Target >= len(objs) {
		return "", "", ""
	}
	target := objs[c.Target].obj
	before := dumpOf(orig)
	var opts []clone.Option
	if c.KeepState {
		opts = append(opts, clone.WithKeepState())
	}
	if c.KeepSecrets {
		opts = append(opts, clone.WithKeepSecrets())
	}
	ctx := bctx.Background()
	var cl any
	switch t := target.(type) {
	case *workflow.Plan:
		cl = clone.Plan(ctx, t, opts...)
	case *workflow.Checks:
		cl = clone.Checks(ctx, t, opts...)
	case *workflow.Block:
		cl = clone.Block(ctx, t, opts...)
	case *workflow.Sequence:
		cl = clone.Sequence(ctx, t, opts...)
	case *workflow.Action:
		cl = clone.Action(ctx, t, opts...)
	}
	kind := objs[c.Target].kind
	if cl == nil || reflect.ValueOf(cl).IsNil() {
		return "clone-returned-nil", kind, fmt.Sprintf("%s: the clone is nil", c)
	}
	if after := dumpOf(orig); after != before {
		return "cloning-changed-the-original", kind + ":" + firstDiffClass(before, after), fmt.Sprintf("%s: the original changed while it was cloned: %s", c, firstDiff2(before, after))
	}
	if s := sharedMemory(target, cl); s != "" {
		return "clone-shares-memory-with-original", kind + ":" + shareClass(s), fmt.Sprintf("%s: %s", c, s)
	}
	// definition preserved, object by object
	var corig, cclone []objRef
	switch t := target.(type) {
	case *workflow.Plan:
		corig, cclone = listObjects(t), listObjects(cl.(*workflow.Plan))
	default:
		corig, cclone = subObjects(target), subObjects(cl)
	}
	if len(corig) != len(cclone) {
		return "clone-structure-differs", kind, fmt.Sprintf("%s: the original has %d objects, the clone %d", c, len(corig), len(cclone))
	}
	for i := range corig {
		if d := defDiff(corig[i].obj, cclone[i].obj, c.KeepSecrets); d != "" {
			return "clone-definition-differs", kind + ":" + corig[i].kind, fmt.Sprintf("%s: %s", c, d)
		}
		ost, oid := stateOf(corig[i].obj)
		cst, cid := stateOf(cclone[i].obj)
		if c.KeepState {
			if oid != cid {
				return "keep-state-lost-id", corig[i].kind, fmt.Sprintf("%s: object %d: id differs", c, i)
			}
			if (ost == nil) != (cst == nil) || (ost != nil && (ost.Status != cst.Status || !ost.Start.Equal(cst.Start) || !ost.End.Equal(cst.End))) {
				return "keep-state-lost-state", corig[i].kind, fmt.Sprintf("%s: object %d: state %+v vs %+v", c, i, ost, cst)
			}
			if oa, ok := corig[i].obj.(*workflow.Action); ok {
				ca := cclone[i].obj.(*workflow.Action)
				if len(oa.Attempts) != len(ca.Attempts) {
					return "keep-state-lost-attempts", "count", fmt.Sprintf("%s: action %q: %d attempts vs %d", c, oa.Name, len(oa.Attempts), len(ca.Attempts))
				}
				for j := range oa.Attempts {
					x, y := oa.Attempts[j], ca.Attempts[j]
					same := errEqual(x.Err, y.Err) && x.Start.Equal(y.Start) && x.End.Equal(y.End)
					if c.KeepSecrets {
						same = same && dumpOf(x.Resp) == dumpOf(y.Resp)
					} else {
						same = same && scrubDump(x.Resp) == scrubDump(y.Resp)
					}
					if !same {
						return "keep-state-lost-attempts", "content", fmt.Sprintf("%s: action %q attempt %d differs", c, oa.Name, j)
					}
				}
			}
			if op, ok := corig[i].obj.(*workflow.Plan); ok {
				cp := cclone[i].obj.(*workflow.Plan)
				if op.Reason != cp.Reason || !op.SubmitTime.Equal(cp.SubmitTime) {
					return "keep-state-lost-state", "plan", fmt.Sprintf("%s: reason/submit time differ", c)
				}
			}
		} else {
			var zero [16]byte
			if cid != zero || cst != nil {
				return "default-clone-kept-engine-state", corig[i].kind, fmt.Sprintf("%s: object %d of the clone has id %x / state %+v", c, i, cid, cst)
			}
			if ca, ok := cclone[i].obj.(*workflow.Action); ok && ca.Attempts != nil {
				return "default-clone-kept-engine-state", "attempts", fmt.Sprintf("%s: action %q of the clone has attempts", c, ca.Name)
			}
			if cp, ok := cclone[i].obj.(*workflow.Plan); ok && (cp.Reason != workflow.FRUnknown || !cp.SubmitTime.IsZero()) {
				return "default-clone-kept-engine-state", "plan", fmt.Sprintf("%s: the cloned plan has reason %s / submit time %v", c, cp.Reason, cp.SubmitTime)
			}
		}
	}
	// mutate the clone: the original must not notice; then the other way round on a second clone
	mutateAll(reflect.ValueOf(cl), 0)
	if after := dumpOf(orig); after != before {
		return "mutating-the-clone-changed-the-original", kind + ":" + firstDiffClass(before, after), fmt.Sprintf("%s: %s", c, firstDiff2(before, after))
	}
	// a default clone of a whole plan, in whatever state, is accepted by Submit on a fresh Workstream
	if _, isPlan := target.(*workflow.Plan); isPlan && !c.KeepState {
		fresh := clone.Plan(ctx, orig, opts...)
		reg := cloneRegistry()
		sqliteSeq++
		v, err := sqlite.New(ctx, fmt.Sprintf("clone-sub-%d", sqliteSeq), reg, sqlite.WithInMemory())
		if err != nil {
			return "harness", "vault", err.Error()
		}
		defer v.Close(ctx)
		ws, err := coercion.New(ctx, reg, v, coercion.WithNoRecovery())
		if err != nil {
			return "harness", "workstream", err.Error()
		}
		if _, err := ws.Submit(ctx, fresh); err != nil {
			return "default-clone-not-resubmittable", c.State, fmt.Sprintf("%s: Submit of the default clone failed: %v", c, err)
		}
	}
	return "", "", ""
}

func subObjects(o any) []objRef {
	switch t := o.(type) {
	case *workflow.Checks:
		out := []objRef{{kind: "checks", obj: t}}
		for _, a := range t.Actions {
			out = append(out, objRef{kind: "action", obj: a})
		}
		return out
	case *workflow.Block:
		p := &workflow.Plan{Blocks: []*workflow.Block{t}}
		return listObjects(p)[1:]
	case *workflow.Sequence:
		out := []objRef{{kind: "seq", obj: t}}
		for _, a := range t.Actions {
			out = append(out, objRef{kind: "action", obj: a})
		}
		return out
	case *workflow.Action:
		return []objRef{{kind: "action", obj: t}}
	}
	return nil
}

func firstDiff2(a, b string) string {
	n := len(a)
	if len(b) < n {
		n = len(b)
	}
	i := 0
	for i < n && a[i] == b[i] {
		i++
	}
	lo := i - 60
	if lo < 0 {
		lo = 0
	}
	hi := func(s string) int {
		if i+40 < len(s) {
			return i + 40
		}
		return len(s)
	}
	return fmt.Sprintf("...%s  became  ...%s", a[lo:hi(a)], b[lo:hi(b)])
}

// firstDiffClass: the field name nearest before the first difference.
func firstDiffClass(a, b string) string {
	n := len(a)
	if len(b) < n {
		n = len(b)
	}
	i := 0
	for i < n && a[i] == b[i] {
		i++
	}
	s := a[:i]
	j := strings.LastIndex(s, ":")
	if j < 0 {
		return "?"
	}
	k := strings.LastIndexAny(s[:j], "{,[")
	return s[k+1 : j]
}

func shareClass(s string) string {
	for _, f := range []string{"Req", "Resp", "Attempts", "Meta", "State", "Actions", "Sequences", "Blocks"} {
		if strings.Contains(s, "."+f) {
			return f
		}
	}
	return "other"
}

func enumC18(env *EnumEnv, it *WorkItem) *EnumResult {
	res := &EnumResult{Exhaustive: true}
	reported := map[string]bool{}
	idx := 0
	states := []string{"fresh", "submitted", "submitted-original", "running", "completed", "failed"}
	g := &budgetGuard{env: env, res: res, phase: "plan shapes (smallest first)"}
	for blocks := 1; blocks <= 2; blocks++ {
		for seqs := 1; seqs <= 2; seqs++ {
			for actions := 1; actions <= 2; actions++ {
				for checks := 0; checks <= 5; checks++ {
					for _, ptr := range []bool{false, true} {
						if env.Tier != "thorough" && ptr && (blocks == 2 || seqs == 2) {
							continue
						}
						sh := cloneShape{Blocks: blocks, Seqs: seqs, Actions: actions, Checks: checks, PtrReq: ptr}
						nobj := len(listObjects(sh.build(false)))
						for _, st := range states {
							for _, ks := range []bool{false, true} {
								for _, ksec := range []bool{false, true} {
									for target := 0; target < nobj; target++ {
										if env.Tier != "thorough" && target > 0 && (blocks == 2 && seqs == 2 && actions == 2) {
											continue
										}
										idx++
										if idx%it.NShards != it.Shard || g.over() {
											continue
										}
										c := cloneCase{Shape: sh, State: st, KeepState: ks, KeepSecrets: ksec, Target: target}
										res.Evaluations++
										if st != "fresh" || ks || ksec || target > 0 {
											res.Distinct++
										}
										if rule, sig, msg := checkCloneCase(c); rule != "" {
											k := rule + "|" + sig
											if !reported[k] {
												reported[k] = true
												res.Found = append(res.Found, &EnumFound{V: Violation{Property: "C18", Rule: rule, Signature: sig, Msg: msg}, Input: c})
											}
										}
										if len(res.Samples) < 2 && st == "failed" && target == 0 && ks {
											res.Samples = append(res.Samples, c.String())
										}
									}
								}
							}
						}
					}
				}
			}
		}
	}
	return res
}

func init() {
	register(&PropDef{
		ID:    "C18",
		Level: "exploration",
		Rule: "plan shapes (1-2 blocks x 1-2 sequences x 1-2 actions x 6 check-group patterns (incl. a passing bypass group on a block and on the plan, i.e. bypassed scopes once executed), request by value and by pointer, each request holding slices, maps, pointers and secure-tagged leaves at several depths) x execution state {fresh, submitted (read back), submitted (the caller's own object after Submit), running, completed, failed} " +
			"(submitted/completed/failed are REAL plans produced by a Workstream over sqlite) x {keep-state} x {keep-secrets} x EVERY object of the plan as the clone target (clone.Plan/Block/Checks/Sequence/Action); " +
			"oracle: canonical dump of the original before/after cloning and after mutating every reachable leaf of the clone, reflective search for shared pointers/slice arrays/maps, definition fields object by object, ids/state/attempts with keep-state and their absence without, and Submit of the default clone on a fresh Workstream; " +
			"distinct_nontrivial = cases other than the default clone of a fresh plan",
		Assumptions: []string{"Keys are not part of the listed definition and are not required to be copied", "the registry pointer inside an action is engine-owned and ignored"},
		Items:       func(tier string) []WorkItem { return shardItems("C18", 16) },
		Enum:        enumC18,
		ReplayInput: func(env *EnumEnv, raw []byte) []*Violation {
			var c cloneCase
			if err := jsonUnmarshal(raw, &c); err != nil {
				return []*Violation{{Property: "C18", Rule: "bad-input", Msg: err.Error()}}
			}
			if rule, sig, msg := checkCloneCase(c); rule != "" {
				return []*Violation{{Property: "C18", Rule: rule, Signature: sig, Msg: msg}}
			}
			return nil
		},
	})
	_ = scrubbed
}
