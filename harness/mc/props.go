package mc

import (
	"fmt"
	"sort"
	"strings"
)

// WorkItem is one unit of work handed to a worker process.
type WorkItem struct {
	ID       int            `json:"id"`
	Prop     string         `json:"prop"`
	Kind     string         `json:"kind"` // explore | enum | replay
	Scenario *Scenario      `json:"scenario,omitempty"`
	Opts     ExploreOpts    `json:"opts"`
	Enum     string         `json:"enum,omitempty"` // enumerator part (C14: "kill")
	Shard    int            `json:"shard,omitempty"`
	NShards  int            `json:"nshards,omitempty"`
	Args     map[string]int `json:"args,omitempty"`
	Choices  []string       `json:"choices,omitempty"` // replay
}

// WorkResult is what a worker answers.
type WorkResult struct {
	ID       int         `json:"id"`
	Stats    Stats       `json:"stats"`
	Found    []*Found    `json:"found,omitempty"`
	Sample   *Found      `json:"sample,omitempty"`
	Sample2  *Found      `json:"sample2,omitempty"`
	Err      string      `json:"err,omitempty"`
	Enum     *EnumResult `json:"enum,omitempty"`
	Warnings []string    `json:"warnings,omitempty"`
}

// EnumResult is the coverage of one shard of a sequential enumerator.
type EnumResult struct {
	Evaluations int          `json:"evaluations"`
	Distinct    int          `json:"distinct"`
	Samples     []string     `json:"samples,omitempty"`
	Exhaustive  bool         `json:"exhaustive"`
	Notes       []string     `json:"notes,omitempty"`
	Found       []*EnumFound `json:"found,omitempty"`
}

// EnumFound is a violation found by an enumerator, with the input that produced it.
type EnumFound struct {
	V     Violation `json:"v"`
	Input any       `json:"input"`
}

// PropDef describes how a property is decided.
type PropDef struct {
	ID          string
	Level       string
	Rule        string
	Assumptions []string
	Items       func(tier string) []WorkItem
	NewMon      func(sc *Scenario) Monitor
	Digest      func(x *Exec) string
	// Enum runs one shard of a sequential enumerator (C13..C20).
	Enum func(env *EnumEnv, it *WorkItem) *EnumResult
	// ReplayInput re-checks one recorded input without the enumerator.
	ReplayInput func(env *EnumEnv, raw []byte) []*Violation
}

var Props = map[string]*PropDef{}

func register(p *PropDef) { Props[p.ID] = p }

func PropIDs() []string {
	var ids []string
	for id := range Props {
		ids = append(ids, id)
	}
	sort.Strings(ids)
	return ids
}

func explore(prop string, sc *Scenario, bound int, free bool) WorkItem {
	return WorkItem{Prop: prop, Kind: "explore", Scenario: sc, Opts: ExploreOpts{Bound: bound, FreeSwitch: free, MaxSeconds: 60}}
}

// exploreCap is explore with an explicit wall cap per scenario (seconds).
func exploreCap(prop string, sc *Scenario, bound int, free bool, maxSec int) WorkItem {
	return WorkItem{Prop: prop, Kind: "explore", Scenario: sc, Opts: ExploreOpts{Bound: bound, FreeSwitch: free, MaxSeconds: maxSec}}
}

// ---------------------------------------------------------------------------------------------
// C02: at most Block.Concurrency sequences in flight; one block at a time.

type monC02 struct{}

func (monC02) AtState(x *Exec) {
	w := x.W
	w.mu.Lock()
	defer w.mu.Unlock()
	type bk struct {
		plan, block int
	}
	perBlock := map[bk]map[int]bool{}
	for path, n := range w.InFlight {
		if n <= 0 {
			continue
		}
		oi := w.Objs[path]
		if oi == nil || oi.Seq < 0 {
			continue
		}
		k := bk{oi.Plan, oi.Block}
		if perBlock[k] == nil {
			perBlock[k] = map[int]bool{}
		}
		perBlock[k][oi.Seq] = true
		if n > 1 {
			x.Report(&Violation{Property: "C02", Rule: "action-invoked-twice-concurrently", Signature: "conc",
				Msg: fmt.Sprintf("action %s has %d plugin calls in flight", path, n)})
		}
	}
	blocksLive := map[int][]int{}
	for k, seqs := range perBlock {
		conc := x.Sc.Plans[k.plan].Blocks[k.block].Conc
		if conc < 1 {
			conc = 1
		}
		if len(seqs) > conc {
			x.Report(&Violation{Property: "C02", Rule: "concurrency-exceeded", Signature: "conc",
				Msg: fmt.Sprintf("P%d/B%d: %d sequences have a plugin call in flight, Concurrency=%d", k.plan, k.block, len(seqs), conc)})
		}
		blocksLive[k.plan] = append(blocksLive[k.plan], k.block)
	}
	for p, bs := range blocksLive {
		if len(bs) > 1 {
			sort.Ints(bs)
			x.Report(&Violation{Property: "C02", Rule: "two-blocks-in-flight", Signature: "blocks",
				Msg: fmt.Sprintf("P%d: sequences of blocks %v are in flight at the same time", p, bs)})
		}
	}
}

func (monC02) AtEnd(x *Exec) {}

func init() {
	register(&PropDef{
		ID:    "C02",
		Level: "model_checking",
		Rule: "scenarios: blocks x sequences x concurrency grid and two plans on one Workstream, family F-seq (every tolerance value incl. -1, every failing position, second block), sharp scenarios and the crash layer (every durable state of crash scenarios with three sequences or two blocks is restarted, same invariant during recovery); every order of visible operations " +
			"(storage writes, plugin entries/returns, API calls) within the deviation bound; non-trivial = execution in which at some state two different logical threads were enabled",
		Assumptions: []string{"a free worker-pool runner always exists (64 runners)", "engine internals between two visible operations are atomic (I/O granularity)"},
		NewMon:      func(sc *Scenario) Monitor { return monC02{} },
		Items: func(tier string) []WorkItem {
			var items []WorkItem
			b := 1
			if tier == "thorough" {
				b = 2
			}
			for _, sc := range FamilyConc(tier) {
				if strings.HasPrefix(sc.Name, "conc-overrun-late") {
					// two timer ticks, the late answer at the wrong moment and one more switch are needed to make a stolen
					// answer visible here: four deviations, which only the thorough tier affords
					if tier == "thorough" {
						items = append(items, exploreCap("C02", sc, 4, true, 600))
					} else {
						items = append(items, explore("C02", sc, b+1, true))
					}
					continue
				}
				items = append(items, explore("C02", sc, b, true))
			}
			// every tolerance value, failing positions, second block (the bound must not depend on them)
			for _, sc := range FamilySeq(tier) {
				items = append(items, explore("C02", sc, b, true))
			}
			// the same grids under the second internal scheduling policy (a woken goroutine runs before its waker goes on):
			// the limiter, the failure counter and the launch loop hand over in the opposite order
			for _, sc := range wakeTwins(FamilyConc(tier)) {
				if strings.HasPrefix(sc.Name, "conc-overrun-late") {
					continue
				}
				items = append(items, explore("C02", sc, b, true))
			}
			for _, sc := range wakeTwins(FamilySeq(tier)) {
				items = append(items, explore("C02", sc, b, true))
			}
			for _, sc := range FamilySharp(tier) {
				items = append(items, explore("C02", sc, b, true))
			}
			// the bound holds for a recovered plan as well: every durable state of crash scenarios with more unfinished
			// sequences than the concurrency allows is restarted and the same state invariant watched
			var crash []*Scenario
			for _, sc := range FamilyCrash(tier) {
				n := sc.Name
				if strings.HasPrefix(n, "crash-b1-n3-") || strings.HasPrefix(n, "crash-b2-n3-") || strings.HasPrefix(n, "crash-b2-n2-a2-") || strings.HasPrefix(n, "crash-2fail-") {
					crash = append(crash, sc)
				}
			}
			items = append(items, crashItems("C02", tier, crash)...)
			// several Running plans resumed by one start-up (a stale one among them): each live plan runs once, within its bound
			for _, sc := range FamilyBoot(tier) {
				if strings.HasPrefix(sc.Name, "boot-many-") {
					items = append(items, explore("C02", sc, 1, false))
				}
			}
			return items
		},
	})
}

func init() {
	register(&PropDef{
		ID:    "C01",
		Level: "model_checking",
		Rule: "families F-seq (no checks, <=1 failing action at every position, c x t grid), F-chk (every subset of the five check groups at plan or block level, 0-2 failing groups), sharp scenarios and the crash layer (every durable state of crash scenarios restarted: predecessor success, block order and pre-check gating hold for what the restarted process invokes, with what was durable counting as done); " +
			"every order of visible operations within the deviation bound; each plugin invocation is checked against the events preceding it; " +
			"distinct_nontrivial = distinct states in which two or more logical threads were enabled",
		Assumptions: []string{"a free worker-pool runner always exists (64 runners)", "engine internals between two visible operations are atomic (I/O granularity)", "continuous checks are background by definition and excluded from 'last'"},
		NewMon:      func(sc *Scenario) Monitor { return monC01{} },
		Items: func(tier string) []WorkItem {
			var items []WorkItem
			b := 1
			if tier == "thorough" {
				b = 3
			}
			for _, sc := range FamilySeq(tier) {
				items = append(items, explore("C01", sc, b, true))
			}
			for _, sc := range FamilyChk(tier) {
				items = append(items, explore("C01", sc, b, true))
			}
			for _, sc := range FamilySharp(tier) {
				if sc.Name == "sharp-launch-tol-c3" && tier != "thorough" {
					items = append(items, explore("C01", sc, b, true)) // five sequences, c=3: bound 2 does not finish within the quick cap
					continue
				}
				items = append(items, explore("C01", sc, b+1, true))
			}
			// the order across a crash: every durable state of the crash scenarios with check groups, several actions per
			// sequence or two blocks is restarted
			var crash []*Scenario
			for _, sc := range FamilyCrash(tier) {
				n := sc.Name
				if strings.HasPrefix(n, "crash-chk-") || strings.HasPrefix(n, "crash-b2-n2-a2-c2-") || strings.HasPrefix(n, "crash-b1-n2-a2-") || n == "crash-all-groups" || strings.HasSuffix(n, "-def") || strings.HasPrefix(n, "crash-retry-tz") || tier == "thorough" {
					crash = append(crash, sc)
				}
			}
			items = append(items, crashItems("C01", tier, crash)...)
			// timeouts, retries and late answers inside a sequence (the next action must still wait for a real success)
			for _, sc := range FamilyRetry(tier) {
				if strings.HasPrefix(sc.Name, "retry-seq-r") || strings.HasPrefix(sc.Name, "retry-chk-r0") || strings.HasPrefix(sc.Name, "retry-chk-r1") {
					items = append(items, exploreCap("C01", sc, b+2, false, 60))
				}
			}
			return items
		},
	})
}
