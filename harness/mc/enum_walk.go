package mc

import (
	"fmt"
	"strings"

	"github.com/element-of-surprise/coercion/workflow"
	"github.com/element-of-surprise/coercion/workflow/utils/walk"
)

// C19: walk. Shapes are built from small integers; the reference is an independent recursive enumeration.

// slot kinds of a checks group
const (
	ckNil     = iota // nil *Checks
	ckNilActs        // &Checks{Actions: nil}
	ckEmpty          // &Checks{Actions: []*Action{}}
	ckOne            // one action
	ckTwo            // two actions
)

func mkChecks(kind int, name string) *workflow.Checks {
	switch kind {
	case ckNil:
		return nil
	case ckNilActs:
		return &workflow.Checks{}
	case ckEmpty:
		return &workflow.Checks{Actions: []*workflow.Action{}}
	case ckOne:
		return &workflow.Checks{Actions: []*workflow.Action{{Name: name + "/a0"}}}
	default:
		return &workflow.Checks{Actions: []*workflow.Action{{Name: name + "/a0"}, {Name: name + "/a1"}}}
	}
}

// sequence-list kinds of a block: each entry lists the action-slice kind of each sequence (-1 nil actions, 0 empty, n actions)
var seqListKinds = [][]int{nil, {}, {-1}, {0}, {1}, {2}, {1, 2}, {2, -1}, {0, 1}, {2, 2}}

func mkSeqs(kind int, name string) []*workflow.Sequence {
	spec := seqListKinds[kind]
	if spec == nil {
		return nil
	}
	out := []*workflow.Sequence{}
	for i, n := range spec {
		s := &workflow.Sequence{Name: fmt.Sprintf("%s/s%d", name, i)}
		switch {
		case n < 0:
		case n == 0:
			s.Actions = []*workflow.Action{}
		default:
			for j := 0; j < n; j++ {
				s.Actions = append(s.Actions, &workflow.Action{Name: fmt.Sprintf("%s/a%d", s.Name, j)})
			}
		}
		out = append(out, s)
	}
	return out
}

type walkShape struct {
	Plan   [5]int    `json:"plan"`   // kinds of by, pre, cont, post, def
	Blocks int       `json:"blocks"` // -1 nil slice, 0 empty slice, 1, 2
	B      [2][5]int `json:"b"`
	Seqs   [2]int    `json:"seqs"`
}

func (w walkShape) build() *workflow.Plan {
	p := &workflow.Plan{Name: "p"}
	p.BypassChecks, p.PreChecks, p.ContChecks, p.PostChecks, p.DeferredChecks =
		mkChecks(w.Plan[0], "p/by"), mkChecks(w.Plan[1], "p/pre"), mkChecks(w.Plan[2], "p/cont"), mkChecks(w.Plan[3], "p/post"), mkChecks(w.Plan[4], "p/def")
	switch {
	case w.Blocks < 0:
	case w.Blocks == 0:
		p.Blocks = []*workflow.Block{}
	default:
		for bi := 0; bi < w.Blocks; bi++ {
			n := fmt.Sprintf("b%d", bi)
			b := &workflow.Block{Name: n}
			k := w.B[bi]
			b.BypassChecks, b.PreChecks, b.ContChecks, b.PostChecks, b.DeferredChecks =
				mkChecks(k[0], n+"/by"), mkChecks(k[1], n+"/pre"), mkChecks(k[2], n+"/cont"), mkChecks(k[3], n+"/post"), mkChecks(k[4], n+"/def")
			b.Sequences = mkSeqs(w.Seqs[bi], n)
			p.Blocks = append(p.Blocks, b)
		}
	}
	return p
}

type refItem struct {
	v     workflow.Object
	chain []workflow.Object
}

// refWalk is the independent enumeration: execution order, each object once, with its ancestors.
func refWalk(p *workflow.Plan) []refItem {
	var out []refItem
	emit := func(v workflow.Object, chain ...workflow.Object) {
		out = append(out, refItem{v: v, chain: append([]workflow.Object{}, chain...)})
	}
	checks := func(c *workflow.Checks, chain ...workflow.Object) {
		if c == nil {
			return
		}
		emit(c, chain...)
		for _, a := range c.Actions {
			emit(a, append(append([]workflow.Object{}, chain...), c)...)
		}
	}
	emit(p)
	checks(p.BypassChecks, p)
	checks(p.PreChecks, p)
	checks(p.ContChecks, p)
	for _, b := range p.Blocks {
		emit(b, p)
		checks(b.BypassChecks, p, b)
		checks(b.PreChecks, p, b)
		checks(b.ContChecks, p, b)
		for _, s := range b.Sequences {
			emit(s, p, b)
			for _, a := range s.Actions {
				emit(a, p, b, s)
			}
		}
		checks(b.PostChecks, p, b)
		checks(b.DeferredChecks, p, b)
	}
	checks(p.PostChecks, p)
	checks(p.DeferredChecks, p)
	return out
}

func describeObj(o workflow.Object) string {
	switch v := o.(type) {
	case *workflow.Plan:
		return "plan"
	case *workflow.Block:
		return "block:" + v.Name
	case *workflow.Sequence:
		return "seq:" + v.Name
	case *workflow.Action:
		return "action:" + v.Name
	case *workflow.Checks:
		if len(v.Actions) > 0 {
			return "checks-of:" + v.Actions[0].Name
		}
		return "checks(empty)"
	}
	return fmt.Sprintf("%T", o)
}

// checkWalkShape returns "" or a description of the first disagreement.
func checkWalkShape(w walkShape) (rule, msg string) {
	defer func() {
		if r := recover(); r != nil {
			rule, msg = "walk-panicked", fmt.Sprint(r)
		}
	}()
	p := w.build()
	ref := refWalk(p)
	var got []walk.Item
	for it := range walk.Plan(p) {
		got = append(got, it) // retained on purpose: later yields must not disturb earlier items
	}
	if len(got) != len(ref) {
		return "walk-item-count", fmt.Sprintf("walk yielded %d items, the plan has %d objects", len(got), len(ref))
	}
	for i := range ref {
		if got[i].Value != ref[i].v {
			return "walk-order", fmt.Sprintf("item %d is %s, execution order wants %s", i, describeObj(got[i].Value), describeObj(ref[i].v))
		}
		if len(got[i].Chain) != len(ref[i].chain) {
			return "walk-chain", fmt.Sprintf("item %d (%s) has %d ancestors, want %d", i, describeObj(ref[i].v), len(got[i].Chain), len(ref[i].chain))
		}
		for j := range ref[i].chain {
			if got[i].Chain[j] != ref[i].chain[j] {
				return "walk-chain", fmt.Sprintf("item %d (%s): ancestor %d is %s, want %s", i, describeObj(ref[i].v), j, describeObj(got[i].Chain[j]), describeObj(ref[i].chain[j]))
			}
		}
	}
	// every early-stop position; ONE sequence value is used for all of them and for a complete walk afterwards: what a
	// walk yields is a function of the plan, never of what earlier (stopped) walks over the same value did
	shared := walk.Plan(p)
	defer func() {
		if rule != "" {
			return
		}
		n := 0
		for it := range shared {
			if n < len(ref) && it.Value != ref[n].v {
				rule, msg = "walk-order", fmt.Sprintf("walk over a sequence value that was walked (and stopped) before: item %d differs", n)
				return
			}
			n++
			if n == 1 {
				// a second walk over the same value started, and stopped, in the middle of this one
				for range shared {
					break
				}
			}
		}
		if n != len(ref) {
			rule, msg = "walk-item-count", fmt.Sprintf("a sequence value that was walked and stopped before yields %d items, the plan has %d objects", n, len(ref))
		}
	}()
	for stop := 0; stop < len(ref); stop++ {
		n := 0
		for it := range shared {
			if it.Value != ref[n].v {
				return "walk-order", fmt.Sprintf("second walk: item %d differs", n)
			}
			n++
			if n == stop+1 {
				break
			}
		}
		if n != stop+1 {
			return "walk-early-stop", fmt.Sprintf("stopping at item %d yielded %d items", stop, n)
		}
		// the yield function must not be called again after it returned false
		calls := 0
		walk.Plan(p)(func(walk.Item) bool {
			calls++
			return calls < stop+1
		})
		if calls != stop+1 {
			return "walk-early-stop", fmt.Sprintf("after the consumer stopped at item %d the walk called yield %d more times", stop, calls-(stop+1))
		}
	}
	return "", ""
}

// walkSpace enumerates the shapes of one tier by index.
type walkSpace struct {
	kinds   []int // allowed checks-slot kinds
	seqs    []int // allowed sequence-list kinds
	blocks  []int // allowed block counts
	planFix bool  // plan-level slots fixed to nil
}

func (s walkSpace) size() int {
	k := len(s.kinds)
	pl := pow(k, 5)
	if s.planFix {
		pl = 1
	}
	total := 0
	for _, nb := range s.blocks {
		per := 1
		for i := 0; i < nb; i++ {
			per *= pow(k, 5) * len(s.seqs)
		}
		total += per
	}
	return pl * total
}

func pow(a, b int) int {
	r := 1
	for i := 0; i < b; i++ {
		r *= a
	}
	return r
}

func (s walkSpace) at(idx int) walkShape {
	var w walkShape
	k := len(s.kinds)
	if !s.planFix {
		for i := 0; i < 5; i++ {
			w.Plan[i] = s.kinds[idx%k]
			idx /= k
		}
	}
	for _, nb := range s.blocks {
		per := 1
		for i := 0; i < nb; i++ {
			per *= pow(k, 5) * len(s.seqs)
		}
		if idx >= per {
			idx -= per
			continue
		}
		w.Blocks = nb
		for bi := 0; bi < nb; bi++ {
			for i := 0; i < 5; i++ {
				w.B[bi][i] = s.kinds[idx%k]
				idx /= k
			}
			w.Seqs[bi] = s.seqs[idx%len(s.seqs)]
			idx /= len(s.seqs)
		}
		break
	}
	return w
}

func walkSpaces(tier string) []walkSpace {
	allSeqs := make([]int, len(seqListKinds))
	for i := range allSeqs {
		allSeqs[i] = i
	}
	if tier == "thorough" {
		return []walkSpace{
			// presence x everything, up to two blocks
			{kinds: []int{ckNil, ckTwo}, seqs: allSeqs, blocks: []int{-1, 0, 1, 2}},
			// all five slot kinds at plan level and in one block
			{kinds: []int{ckNil, ckNilActs, ckEmpty, ckOne, ckTwo}, seqs: []int{0, 1, 4, 7}, blocks: []int{-1, 0, 1}},
			// three kinds, two blocks, plan level fixed
			{kinds: []int{ckNil, ckEmpty, ckOne}, seqs: []int{1, 4, 8}, blocks: []int{2}, planFix: true},
		}
	}
	return []walkSpace{
		{kinds: []int{ckNil, ckTwo}, seqs: []int{0, 1, 2, 5, 7, 9}, blocks: []int{-1, 0, 1, 2}},
		{kinds: []int{ckNil, ckNilActs, ckEmpty, ckOne, ckTwo}, seqs: []int{4}, blocks: []int{-1, 1}},
		{kinds: []int{ckNil, ckEmpty, ckOne}, seqs: allSeqs, blocks: []int{1}, planFix: true},
	}
}

func enumC19(env *EnumEnv, it *WorkItem) *EnumResult {
	res := &EnumResult{Exhaustive: true}
	seen := map[string]bool{}
	g := &budgetGuard{env: env, res: res}
	for si, sp := range walkSpaces(env.Tier) {
		n := sp.size()
		g.phase = fmt.Sprintf("shape space %d of %d", si+1, len(walkSpaces(env.Tier)))
		for idx := it.Shard; idx < n; idx += it.NShards {
			if g.over() {
				break
			}
			w := sp.at(idx)
			res.Evaluations++
			if w != (walkShape{Blocks: -1}) && w != (walkShape{}) {
				res.Distinct++
			}
			if rule, msg := checkWalkShape(w); rule != "" && !seen[rule] {
				seen[rule] = true
				res.Found = append(res.Found, &EnumFound{V: Violation{Property: "C19", Rule: rule, Signature: walkSignature(w, msg), Msg: msg}, Input: w})
			}
			if len(res.Samples) < 2 && idx > n/2 {
				res.Samples = append(res.Samples, fmt.Sprintf("space %d shape #%d: %+v (%d objects)", si, idx, w, len(refWalk(w.build()))))
			}
		}
	}
	return res
}

func walkSignature(w walkShape, msg string) string {
	// what is wrong, without the shape-specific item numbers
	f := strings.Fields(msg)
	var keep []string
	for _, x := range f {
		if strings.ContainsAny(x, "0123456789") {
			continue
		}
		keep = append(keep, x)
	}
	return strings.Join(keep, " ")
}

func shardItems(prop string, n int) []WorkItem {
	var items []WorkItem
	for i := 0; i < n; i++ {
		items = append(items, WorkItem{Prop: prop, Kind: "enum", Shard: i, NShards: n})
	}
	return items
}

func init() {
	register(&PropDef{
		ID:    "C19",
		Level: "exploration",
		Rule: "bounded-exhaustive enumeration of plan shapes by index: (1) every combination of present/absent check groups (ten slots) x sequence-list shapes x 0-2 blocks (nil and empty block slices), (2) all five kinds of a checks slot (nil, nil actions, empty actions, 1, 2 actions) at plan level and in one block, " +
			"(3) three kinds in two blocks; for every shape the full walk (items retained) and EVERY early-stop position are compared with an independent recursive enumeration by pointer identity of objects and ancestors; " +
			"distinct_nontrivial = shapes other than the empty plan (all shapes are distinct by construction)",
		Assumptions: []string{"shapes beyond 2 blocks / 2 sequences / 2 actions are not enumerated"},
		Items:       func(tier string) []WorkItem { return shardItems("C19", 16) },
		Enum:        enumC19,
		ReplayInput: func(env *EnumEnv, raw []byte) []*Violation {
			var w walkShape
			if err := jsonUnmarshal(raw, &w); err != nil {
				return []*Violation{{Property: "C19", Rule: "bad-input", Msg: err.Error()}}
			}
			if rule, msg := checkWalkShape(w); rule != "" {
				return []*Violation{{Property: "C19", Rule: rule, Signature: walkSignature(w, msg), Msg: msg}}
			}
			return nil
		},
	})
}
