package mc

import (
	"fmt"
	"hash/fnv"
	"sort"
	"strings"
	"testing"
	"time"
)

// ExploreOpts bounds one exploration of one scenario.
type ExploreOpts struct {
	Bound      int  `json:"bound"`      // maximum number of deviations from the default schedule
	FreeSwitch bool `json:"freeSwitch"` // choosing another thread when the last-run thread is not enabled costs nothing
	MaxExecs   int  `json:"maxExecs"`   // cap on executions (0 = none)
	MaxSeconds int  `json:"maxSeconds"` // wall cap for this scenario (0 = none); hitting it is reported, never a failure
	NoPrune    bool `json:"noPrune"`    // disable state-key pruning (pure stateless search)
}

// Found is a violation together with the schedule that produced it.
type Found struct {
	V        Violation `json:"v"`
	Choices  []string  `json:"choices"`
	Stable   bool      `json:"stable"`
	Scenario *Scenario `json:"scenario"`
	Events   []string  `json:"events,omitempty"`
	Points   []Point   `json:"points,omitempty"`
}

// Stats is what one exploration covered.
type Stats struct {
	Executions   int            `json:"executions"`
	Steps        int            `json:"steps"`       // operations executed in total
	States       int            `json:"states"`      // distinct state fingerprints
	Transitions  int            `json:"transitions"` // distinct (state, operation) pairs
	MaxDepth     int            `json:"maxDepth"`
	Outcomes     map[string]int `json:"outcomes"`
	EndStates    int            `json:"endStates"` // distinct end-state digests
	Diverged     int            `json:"diverged"`
	NonTrivial   int            `json:"nonTrivial"`
	BranchStates int            `json:"branchStates"` // distinct states in which two or more logical threads were enabled
	Capped       bool           `json:"capped"`
	BoundDone    int            `json:"boundDone"`
	WallMS       int64          `json:"wallMs"`
}

func (s *Stats) add(o *Stats) {
	s.Executions += o.Executions
	s.Steps += o.Steps
	s.States += o.States
	s.Transitions += o.Transitions
	if o.MaxDepth > s.MaxDepth {
		s.MaxDepth = o.MaxDepth
	}
	if s.Outcomes == nil {
		s.Outcomes = map[string]int{}
	}
	for k, v := range o.Outcomes {
		s.Outcomes[k] += v
	}
	s.EndStates += o.EndStates
	s.Diverged += o.Diverged
	s.NonTrivial += o.NonTrivial
	s.BranchStates += o.BranchStates
	s.Capped = s.Capped || o.Capped
	s.WallMS += o.WallMS
}

// Explorer explores one scenario.
type Explorer struct {
	T       *testing.T
	Sc      *Scenario
	Opts    ExploreOpts
	NewMon  func() Monitor
	ExecOpt ExecOpts
	// Digest computes the end-state digest of an execution (distinct outcomes are counted). Optional.
	Digest func(x *Exec) string

	Stats    Stats
	Found    []*Found
	Warnings []string
	Sample   *Found // the default schedule, for the evidence
	Sample2  *Found // the first non-default schedule

	states   map[uint64]int
	trans    map[uint64]struct{}
	ends     map[string]struct{}
	deadline time.Time
	seenKeys map[string]bool
}

func hashStr(s string) uint64 {
	h := fnv.New64a()
	h.Write([]byte(s))
	return h.Sum64()
}

// fingerprinter computes the state key: per-thread ordered event histories (combined commutatively, so the
// inter-thread order does not matter), the last write per object, what is parked/enabled now, and the clock.
type fingerprinter struct {
	bounded bool
	nEv     int
	threads map[string]uint64
	lastW   map[string]uint64
}

func eventKey(e *Event) string {
	return fmt.Sprintf("%s|%s|%s|%d|%s|%s|%d|%d|%s|%d", e.Kind, e.Thread, e.Path, e.N, e.Out, e.Status, e.NAtt, e.Gen, e.Err, e.Now)
}

func (f *fingerprinter) state(x *Exec, enabled []string) uint64 {
	w := x.W
	if f.threads == nil {
		f.threads = map[string]uint64{}
		f.lastW = map[string]uint64{}
	}
	w.mu.Lock()
	for ; f.nEv < len(w.Events); f.nEv++ {
		e := &w.Events[f.nEv]
		h := hashStr(eventKey(e))
		f.threads[e.Thread] = (f.threads[e.Thread]*0x100000001b3 + 1) ^ h
		if e.Kind == "W" {
			f.lastW[e.Path] = h
		}
	}
	now := w.nowSec()
	w.mu.Unlock()
	var sum uint64
	for t, h := range f.threads {
		sum += (h ^ hashStr(t)) * 0x9E3779B97F4A7C15
	}
	for p, h := range f.lastW {
		sum += (h ^ hashStr(p)) * 0xC2B2AE3D27D4EB4F
	}
	en := append([]string(nil), enabled...)
	sort.Strings(en)
	if f.bounded && x.CurRunning && len(enabled) > 0 {
		// under a deviation bound the cost of the continuations depends on which operation continues the running thread
		sum ^= hashStr("running:" + enabled[0])
	}
	k := sum ^ hashStr(strings.Join(en, ";")) ^ (uint64(now) * 0xff51afd7ed558ccd) ^ (uint64(x.Ticks) << 48)
	if x.tickDead {
		k ^= 0xdeadbeef
	}
	return k
}

type runResult struct {
	x *Exec
}

// runOnce runs one execution: prefix by label, then default choices. expect (optional) are the enabled lists
// recorded by the parent for the prefix steps; a mismatch is a divergence.
func (e *Explorer) runOnce(prefix []string, expect []Point, count bool) *Exec {
	return e.runOnceUsed(prefix, expect, count, 0)
}

// Unbounded is the deviation bound that means "no bound": the whole state space of the scenario.
const Unbounded = 1000

const pruneLabel = "\x00PRUNE"

func (e *Explorer) runOnceUsed(prefix []string, expect []Point, count bool, used int) *Exec {
	if e.Opts.Bound >= Unbounded {
		used = 0 // full state space: the deviation count is irrelevant for pruning
	}
	var mon Monitor
	if e.NewMon != nil {
		mon = e.NewMon()
	}
	fp := &fingerprinter{bounded: e.Opts.Bound < Unbounded}
	var x *Exec
	var xp **Exec = &x
	diverged := ""
	var prevState uint64
	var havePrev bool
	var prevLabel string
	choose := func(step int, enabled []string) string {
		cx := *xp
		if count && cx != nil {
			st := fp.state(cx, enabled)
			if havePrev {
				e.trans[prevState^hashStr(prevLabel)*31] = struct{}{}
			}
			prevState, havePrev = st, true
			if step >= len(prefix) && !e.Opts.NoPrune {
				if u, ok := e.states[st]; ok && u <= used {
					havePrev = false
					return pruneLabel
				}
			}
			if u, ok := e.states[st]; !ok || used < u {
				if !ok && multiThread(enabled) {
					e.Stats.BranchStates++
				}
				e.states[st] = used
			}
		}
		var label string
		if step < len(prefix) {
			label = prefix[step]
			if expect != nil && step < len(expect) {
				if !sameSet(expect[step].Enabled, enabled) {
					diverged = fmt.Sprintf("step %d: enabled set differs from recorded: got %v want %v", step, enabled, expect[step].Enabled)
					return ""
				}
			}
			ok := false
			for _, l := range enabled {
				if l == label {
					ok = true
					break
				}
			}
			if !ok {
				diverged = fmt.Sprintf("step %d: %q not enabled: %v", step, label, enabled)
				return ""
			}
		} else {
			label = enabled[0]
		}
		prevLabel = label
		return label
	}
	// RunExecution assigns x only on return; the chooser needs it earlier, so use a trampoline monitor.
	tm := &trampoline{inner: mon, set: func(cx *Exec) { *xp = cx }, digest: e.Digest}
	x = RunExecution(e.T, e.Sc, choose, tm, e.ExecOpt)
	if diverged != "" && x.Diverged == "" {
		x.Diverged = diverged
	}
	if count && havePrev {
		e.trans[prevState^hashStr(prevLabel)*31] = struct{}{}
	}
	return x
}

type trampoline struct {
	inner  Monitor
	set    func(*Exec)
	digest func(*Exec) string
}

func (t *trampoline) AtState(x *Exec) {
	t.set(x)
	if t.inner != nil {
		t.inner.AtState(x)
	}
}
func (t *trampoline) AtEnd(x *Exec) {
	if t.inner != nil {
		t.inner.AtEnd(x)
	}
	if t.digest != nil {
		x.EndDigest = t.digest(x)
	}
}

// multiThread reports whether operations of at least two different logical threads are enabled.
func multiThread(enabled []string) bool {
	first := ""
	for i, l := range enabled {
		t := l
		if j := strings.IndexByte(l, '|'); j >= 0 {
			t = l[:j]
		}
		if i == 0 {
			first = t
		} else if t != first {
			return true
		}
	}
	return false
}

func sameSet(a, b []string) bool {
	if len(a) != len(b) {
		return false
	}
	m := map[string]int{}
	for _, s := range a {
		m[s]++
	}
	for _, s := range b {
		m[s]--
		if m[s] < 0 {
			return false
		}
	}
	return true
}

func choicesOf(x *Exec) []string {
	out := make([]string, len(x.Points))
	for i, p := range x.Points {
		out[i] = p.Chosen
	}
	return out
}

func eventStrings(x *Exec, max int) []string {
	x.W.mu.Lock()
	defer x.W.mu.Unlock()
	evs := x.W.Events
	if x.EventsAtEnd > 0 && x.EventsAtEnd < len(evs) {
		evs = evs[:x.EventsAtEnd]
	}
	var out []string
	if len(evs) > max {
		out = append(out, fmt.Sprintf("... %d earlier events omitted", len(evs)-max))
		evs = evs[len(evs)-max:]
	}
	for _, e := range evs {
		out = append(out, e.String())
	}
	return out
}

// Run explores the scenario with iterative deviation bounding: bound 0, then 1, ... up to Opts.Bound.
// Executions already covered by a smaller bound are re-run only as the spine of their subtree.
func (e *Explorer) Run() {
	start := time.Now()
	e.states = map[uint64]int{}
	e.trans = map[uint64]struct{}{}
	e.ends = map[string]struct{}{}
	e.seenKeys = map[string]bool{}
	e.Stats.Outcomes = map[string]int{}
	if e.Opts.MaxSeconds > 0 {
		e.deadline = start.Add(time.Duration(e.Opts.MaxSeconds) * time.Second)
	}
	e.Stats.BoundDone = -1
	// A single DFS with the final bound visits every execution of every smaller bound exactly once as well
	// (an execution with d deviations is reached through its unique deviation sequence), so one pass suffices;
	// the order is by deviation position, and BoundDone is the bound when no cap was hit.
	e.explore(nil, nil, 0)
	if !e.Stats.Capped {
		e.Stats.BoundDone = e.Opts.Bound
	}
	e.Stats.States = len(e.states)
	e.Stats.Transitions = len(e.trans)
	e.Stats.EndStates = len(e.ends)
	// Stability: every distinct violation must reproduce on 5 replays of its own schedule.
	for _, f := range e.Found {
		f.Stable = true
		for i := 0; i < 5; i++ {
			x := e.runOnce(f.Choices, nil, false)
			ok := false
			for _, v := range x.Violations {
				if v.Key() == f.V.Key() {
					ok = true
				}
			}
			if !ok {
				f.Stable = false
				break
			}
		}
	}
	e.Stats.WallMS = time.Since(start).Milliseconds()
}

func (e *Explorer) capped() bool {
	if e.Opts.MaxExecs > 0 && e.Stats.Executions >= e.Opts.MaxExecs {
		return true
	}
	if !e.deadline.IsZero() && time.Now().After(e.deadline) {
		return true
	}
	return false
}

func (e *Explorer) explore(prefix []string, expect []Point, used int) {
	if e.capped() {
		e.Stats.Capped = true
		return
	}
	x := e.runOnceUsed(prefix, expect, true, used)
	if x.Outcome == "diverged" {
		// one retry
		x = e.runOnceUsed(prefix, expect, true, used)
		if x.Outcome == "diverged" {
			if len(e.Warnings) < 3 {
				e.Warnings = append(e.Warnings, fmt.Sprintf("replay diverged twice in %s after %d steps: %s", e.Sc.Name, len(prefix), x.Diverged))
			}
			e.Stats.Diverged++
			e.Stats.Executions++
			e.Stats.Outcomes["diverged"]++
			return
		}
	}
	e.Stats.Executions++
	e.Stats.Steps += len(x.Points)
	if len(x.Points) > e.Stats.MaxDepth {
		e.Stats.MaxDepth = len(x.Points)
	}
	e.Stats.Outcomes[x.Outcome]++
	if x.NonTrivial {
		e.Stats.NonTrivial++
	}
	if e.Digest != nil && x.Outcome != "pruned" {
		e.ends[x.EndDigest] = struct{}{}
	}
	if e.Sample == nil {
		e.Sample = &Found{Choices: choicesOf(x), Scenario: e.Sc, Events: eventStrings(x, 60)}
	} else if e.Sample2 == nil && len(prefix) > 0 && x.NonTrivial {
		e.Sample2 = &Found{Choices: choicesOf(x), Scenario: e.Sc, Events: eventStrings(x, 60)}
	}
	for _, v := range x.Violations {
		if !e.seenKeys[v.Key()] {
			e.seenKeys[v.Key()] = true
			e.Found = append(e.Found, &Found{V: *v, Choices: choicesOf(x), Scenario: e.Sc, Events: eventStrings(x, 200), Points: x.Points})
		}
	}
	choices := choicesOf(x)
	for i := len(prefix); i < len(x.Points); i++ {
		p := x.Points[i]
		for alt := 1; alt < len(p.Enabled); alt++ {
			cost := 1
			if e.Opts.FreeSwitch && !p.RunningEnabled && p.Enabled[alt] != "TICK" {
				cost = 0
			}
			if used+cost > e.Opts.Bound {
				continue
			}
			np := append(append([]string{}, choices[:i]...), p.Enabled[alt])
			e.explore(np, x.Points[:i+1], used+cost)
			if e.Stats.Capped {
				return
			}
		}
	}
}
