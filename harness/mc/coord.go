package mc

import (
	"bufio"
	"bytes"
	stdctx "context"
	"encoding/json"
	"fmt"
	"io"
	"os"
	"os/exec"
	"path/filepath"
	"runtime"
	"sort"
	"strconv"
	"strings"
	"sync"
	"sync/atomic"
	"syscall"
	"testing"
	"time"

	"github.com/gostdlib/base/concurrency/worker"
)

// EnumEnv is what an enumerator gets from its worker.
type EnumEnv struct {
	T    *testing.T
	Tier string
	// Deadline (zero = none) is the wall-clock budget of this item: an enumerator that reaches it stops, says how far
	// it got in its (simplest-first) order and reports Exhaustive=false; it never turns into a violation.
	Deadline time.Time
	calls    int
}

// budgetGuard is what an enumerator asks before every evaluation of its shard: once the item's budget is used up the
// enumerator stops evaluating, the result says in which phase of its simplest-first order that happened, and
// Exhaustive is false.
type budgetGuard struct {
	env     *EnumEnv
	res     *EnumResult
	phase   string
	expired bool
}

func (g *budgetGuard) over() bool {
	if g.expired {
		return true
	}
	if g.env.Expired() {
		g.expired = true
		g.res.Exhaustive = false
		g.res.Notes = append(g.res.Notes, fmt.Sprintf("budget reached in phase %q after %d evaluations of this shard; everything before that phase was covered completely", g.phase, g.res.Evaluations))
		return true
	}
	return false
}

// Expired reports whether the item's budget is used up (the clock is read every 64th call).
func (e *EnumEnv) Expired() bool {
	if e.Deadline.IsZero() {
		return false
	}
	e.calls++
	if e.calls%64 != 0 {
		return false
	}
	return time.Now().After(e.Deadline)
}

// KnownFinding is one entry of /verif/known_findings.json.
type KnownFinding struct {
	Property  string `json:"property"`
	Rule      string `json:"rule"`
	Signature string `json:"signature"`
	What      string `json:"what"`
	Status    string `json:"status"` // open | fixed
	Commit    string `json:"commit,omitempty"`
}

func loadKnown(dir string) []KnownFinding {
	b, err := os.ReadFile(filepath.Join(dir, "known_findings.json"))
	if err != nil {
		return nil
	}
	var out []KnownFinding
	if err := json.Unmarshal(b, &out); err != nil {
		fmt.Fprintf(os.Stderr, "known_findings.json: %v\n", err)
		os.Exit(2)
	}
	return out
}

// ---------------------------------------------------------------------------------------------
// Worker side.

func workerLoop(t *testing.T) {
	out := os.NewFile(3, "results")
	if out == nil {
		t.Fatal("fd 3 missing")
	}
	var wal *os.File
	if p := os.Getenv("MC_WAL"); p != "" {
		wal, _ = os.OpenFile(p, os.O_CREATE|os.O_RDWR|os.O_TRUNC, 0o644)
	}
	in := bufio.NewReaderSize(os.Stdin, 1<<20)
	enc := json.NewEncoder(out)
	for {
		line, err := in.ReadBytes('\n')
		if len(line) > 0 {
			var it WorkItem
			if jerr := json.Unmarshal(line, &it); jerr != nil {
				enc.Encode(&WorkResult{ID: -1, Err: "bad item: " + jerr.Error()})
			} else {
				res := runItem(t, &it, wal)
				enc.Encode(res)
			}
		}
		if err != nil {
			return
		}
	}
}

func runItem(t *testing.T, it *WorkItem, wal *os.File) *WorkResult {
	res := &WorkResult{ID: it.ID}
	pd := Props[it.Prop]
	if pd == nil {
		res.Err = "unknown property " + it.Prop
		return res
	}
	switch it.Kind {
	case "explore":
		e := &Explorer{T: t, Sc: it.Scenario, Opts: it.Opts, Digest: pd.Digest}
		if e.Digest == nil {
			e.Digest = DefaultDigest
		}
		if pd.NewMon != nil {
			e.NewMon = func() Monitor { return pd.NewMon(it.Scenario) }
		}
		e.ExecOpt.WAL = wal
		e.ExecOpt.WALHeader = fmt.Sprintf("%d", it.ID)
		if it.Scenario.Crash {
			runCrashItem(e, pd, it, res)
			return res
		}
		e.Run()
		res.Stats, res.Found, res.Sample, res.Sample2, res.Warnings = e.Stats, e.Found, e.Sample, e.Sample2, e.Warnings
	case "enum":
		if pd.Enum == nil {
			res.Err = "no enumerator for " + it.Prop
			return res
		}
		start := time.Now()
		restore := freshDefaultPool()
		env := &EnumEnv{T: t, Tier: *flagTier}
		if it.Opts.MaxSeconds > 0 {
			env.Deadline = start.Add(time.Duration(it.Opts.MaxSeconds) * time.Second)
		}
		res.Enum = pd.Enum(env, it)
		restore()
		res.Stats.WallMS = time.Since(start).Milliseconds()
	default:
		res.Err = "unknown kind " + it.Kind
	}
	return res
}

// ---------------------------------------------------------------------------------------------
// Coordinator side.

type workerProc struct {
	cmd    *exec.Cmd
	stdin  io.WriteCloser
	res    *bufio.Reader
	stderr *tailBuffer
	wal    string
	items  int
}

type tailBuffer struct {
	mu    sync.Mutex
	buf   []byte
	cause string // the first "panic:" / "fatal error:" line seen: it scrolls out of the tail when many goroutines are dumped
}

func (t *tailBuffer) Write(p []byte) (int, error) {
	t.mu.Lock()
	if t.cause == "" {
		for _, l := range strings.Split(string(p), "\n") {
			l = strings.TrimSpace(l)
			if strings.HasPrefix(l, "panic:") || strings.HasPrefix(l, "fatal error:") {
				t.cause = l
				break
			}
		}
	}
	t.buf = append(t.buf, p...)
	if len(t.buf) > 32<<10 {
		t.buf = t.buf[len(t.buf)-(16<<10):]
	}
	t.mu.Unlock()
	return len(p), nil
}

func (t *tailBuffer) String() string {
	t.mu.Lock()
	defer t.mu.Unlock()
	if t.cause != "" && !strings.Contains(string(t.buf), t.cause) {
		return t.cause + "\n[...]\n" + string(t.buf)
	}
	return string(t.buf)
}

func startWorker(idx int, tier string) (*workerProc, error) {
	walDir := filepath.Join(*flagVerifDir, ".work")
	os.MkdirAll(walDir, 0o755)
	wal := filepath.Join(walDir, fmt.Sprintf("wal-%d-%d", os.Getpid(), idx))
	cmd := exec.Command(os.Args[0], "-test.run=^TestWorker$", "-test.timeout=0", "-mc.role=worker", "-mc.tier="+tier)
	cmd.Env = append(os.Environ(), "GOMAXPROCS=1", "MC_WAL="+wal, "GOGC=200")
	stdin, err := cmd.StdinPipe()
	if err != nil {
		return nil, err
	}
	pr, pw, err := os.Pipe()
	if err != nil {
		return nil, err
	}
	cmd.ExtraFiles = []*os.File{pw}
	tb := &tailBuffer{}
	cmd.Stderr = tb
	cmd.Stdout = tb
	if err := cmd.Start(); err != nil {
		return nil, err
	}
	pw.Close()
	return &workerProc{cmd: cmd, stdin: stdin, res: bufio.NewReaderSize(pr, 1<<20), stderr: tb, wal: wal}, nil
}

func (w *workerProc) stop() {
	w.stdin.Close()
	done := make(chan struct{})
	go func() { w.cmd.Wait(); close(done) }()
	select {
	case <-done:
	case <-time.After(10 * time.Second):
		w.cmd.Process.Kill()
		<-done
	}
	os.Remove(w.wal)
}

// death describes a worker that died while working on an item.
type death struct {
	Item   *WorkItem
	Stderr string
	WAL    string
	Hung   bool // killed by the coordinator's watchdog
}

type aggregate struct {
	mu          sync.Mutex
	stats       Stats
	found       []*Found
	enumFound   []*EnumFound
	samples     []*Found
	deaths      []death
	cappedNames []string
	budgetNote  string
	errs        []string
	warnings    []string
	enum        EnumResult
	items       int
	perFamily   map[string]*Stats
	scenarios   int
}

func coordinate(prop, tier string) int {
	start := time.Now()
	pd := Props[prop]
	if pd == nil {
		fmt.Fprintf(os.Stderr, "unknown property %q; known: %v\n", prop, PropIDs())
		return 2
	}
	items := pd.Items(tier)
	if *flagScenario != "" {
		var f []WorkItem
		for _, it := range items {
			if it.Scenario != nil && strings.Contains(it.Scenario.Name, *flagScenario) {
				f = append(f, it)
			}
		}
		items = f
	}
	for i := range items {
		items[i].ID = i
		items[i].Prop = prop
	}
	n := *flagWorkers
	if n <= 0 {
		n = runtime.NumCPU()
	}
	if n > len(items) {
		n = len(items)
	}
	if n < 1 {
		n = 1
	}
	agg := &aggregate{perFamily: map[string]*Stats{}}
	budget := budgetFor(tier)
	var all []*WorkItem
	for i := range items {
		all = append(all, &items[i])
	}
	results := map[int]*WorkResult{}
	if budget == 0 {
		runBatch(all, n, tier, agg, results)
	} else {
		// Two passes under a wall-clock budget: first every item with a small cap (the cheap ones finish completely),
		// then the items that hit it again, sharing what is left of the budget.
		// the first pass must fit into half of the budget even if every scenario used its cap
		firstCap := 20
		if len(all) > 0 {
			if c := int(budget.Seconds() * float64(n) / float64(2*len(all))); c < firstCap {
				firstCap = c
			}
		}
		if firstCap < 2 {
			firstCap = 2
		}
		enumItems := 0
		for _, it := range all {
			if it.Kind == "enum" {
				enumItems++
			}
		}
		enumWaves := (enumItems + n - 1) / n
		if enumWaves < 1 {
			enumWaves = 1
		}
		orig := map[int]int{}
		for _, it := range all {
			orig[it.ID] = it.Opts.MaxSeconds
			if it.Kind == "explore" && (it.Opts.MaxSeconds == 0 || it.Opts.MaxSeconds > firstCap) {
				it.Opts.MaxSeconds = firstCap
			}
			if it.Kind == "enum" && it.Opts.MaxSeconds == 0 {
				// enumerator shards run side by side, in as many waves as the workers need: each gets its share
				it.Opts.MaxSeconds = int(budget.Seconds() * 0.9 / float64(enumWaves))
			}
		}
		runBatch(all, n, tier, agg, results)
		var again []*WorkItem
		for _, it := range all {
			if r := results[it.ID]; r != nil && r.Err == "" && r.Stats.Capped && it.Kind == "explore" && (orig[it.ID] == 0 || orig[it.ID] > firstCap) {
				again = append(again, it)
			}
		}
		remaining := budget - time.Since(start)
		agg.budgetNote = fmt.Sprintf("wall budget %v: first pass with a cap of %d s per scenario took %v; %d scenarios hit the cap", budget, firstCap, time.Since(start).Round(time.Second), len(again))
		if len(again) > 0 && remaining > 0 {
			per := int(remaining.Seconds())
			if len(again) > n {
				per = int(remaining.Seconds() * float64(n) / float64(len(again)))
			}
			var second []*WorkItem
			for _, it := range again {
				c := per
				if orig[it.ID] > 0 && orig[it.ID] < c {
					c = orig[it.ID]
				}
				if c >= firstCap*3/2 {
					it.Opts.MaxSeconds = c
					second = append(second, it)
				}
			}
			if len(second) > 0 {
				agg.budgetNote += fmt.Sprintf("; second pass: %d of them explored again from scratch with a cap of up to %d s each", len(second), per)
				runBatch(second, n, tier, agg, results)
			}
		}
	}
	for _, it := range all {
		if r := results[it.ID]; r != nil {
			agg.merge(it, r)
		}
	}
	return report(pd, tier, agg, len(items), time.Since(start))
}

// budgetFor: the thorough tier runs under a wall-clock budget (default 15 min, VERIF_THOROUGH_BUDGET_MIN overrides,
// 0 = none); the quick tier is bounded by the per-scenario caps alone.
func budgetFor(tier string) time.Duration {
	if *flagBudgetMin >= 0 {
		return time.Duration(*flagBudgetMin) * time.Minute
	}
	if tier != "thorough" {
		return 0
	}
	if v, err := strconv.Atoi(os.Getenv("VERIF_THOROUGH_BUDGET_MIN")); err == nil && v >= 0 {
		return time.Duration(v) * time.Minute
	}
	return 15 * time.Minute
}

// runBatch runs the items on n worker processes and stores each result under the item's id.
func runBatch(items []*WorkItem, n int, tier string, agg *aggregate, results map[int]*WorkResult) {
	if n > len(items) {
		n = len(items)
	}
	if n < 1 {
		n = 1
	}
	queue := make(chan *WorkItem, len(items))
	for _, it := range items {
		queue <- it
	}
	close(queue)
	var wg sync.WaitGroup
	for wi := 0; wi < n; wi++ {
		wg.Add(1)
		go func(wi int) {
			defer wg.Done()
			var wp *workerProc
			defer func() {
				if wp != nil {
					wp.stop()
				}
			}()
			for it := range queue {
				if wp == nil || wp.items >= 400 {
					if wp != nil {
						wp.stop()
					}
					var err error
					wp, err = startWorker(wi, tier)
					if err != nil {
						agg.mu.Lock()
						agg.errs = append(agg.errs, "cannot start worker: "+err.Error())
						agg.mu.Unlock()
						return
					}
				}
				wp.items++
				b, _ := json.Marshal(it)
				b = append(b, '\n')
				_, werr := wp.stdin.Write(b)
				var line []byte
				var rerr error
				var hung atomic.Bool
				if werr == nil {
					// Watchdog: an item that runs far beyond its own internal caps means the process is stuck outside
					// a bubble (inside one, a hang is detected exactly); it is asked for a goroutine dump and counted.
					limit := 45*time.Minute + 4*time.Duration(it.Opts.MaxSeconds)*time.Second
					proc := wp.cmd.Process
					wd := time.AfterFunc(limit, func() { hung.Store(true); proc.Signal(syscall.SIGQUIT) })
					line, rerr = wp.res.ReadBytes('\n')
					wd.Stop()
				}
				if werr != nil || rerr != nil {
					// the worker died on this item
					wp.cmd.Wait()
					walb, _ := os.ReadFile(wp.wal)
					agg.mu.Lock()
					agg.deaths = append(agg.deaths, death{Item: it, Stderr: wp.stderr.String(), WAL: string(walb), Hung: hung.Load()})
					delete(results, it.ID)
					agg.mu.Unlock()
					os.Remove(wp.wal)
					wp = nil
					continue
				}
				res := &WorkResult{}
				if err := json.Unmarshal(line, res); err != nil {
					agg.mu.Lock()
					agg.errs = append(agg.errs, "bad result: "+err.Error())
					agg.mu.Unlock()
					continue
				}
				agg.mu.Lock()
				results[it.ID] = res
				agg.mu.Unlock()
			}
		}(wi)
	}
	wg.Wait()
}

func (a *aggregate) merge(it *WorkItem, r *WorkResult) {
	a.mu.Lock()
	defer a.mu.Unlock()
	a.items++
	if r.Err != "" {
		a.errs = append(a.errs, fmt.Sprintf("item %d: %s", it.ID, r.Err))
		return
	}
	a.warnings = append(a.warnings, r.Warnings...)
	if r.Enum != nil {
		a.enum.Evaluations += r.Enum.Evaluations
		a.enum.Distinct += r.Enum.Distinct
		if len(a.enum.Samples) < 6 {
			a.enum.Samples = append(a.enum.Samples, r.Enum.Samples...)
		}
		a.enum.Notes = append(a.enum.Notes, r.Enum.Notes...)
		if !r.Enum.Exhaustive {
			a.stats.Capped = true
		}
		a.enumFound = append(a.enumFound, r.Enum.Found...)
		a.stats.WallMS += r.Stats.WallMS
		return
	}
	a.scenarios++
	a.stats.add(&r.Stats)
	if r.Stats.Capped && it.Scenario != nil {
		a.cappedNames = append(a.cappedNames, fmt.Sprintf("%s (bound %d requested, %d executions in %ds)", it.Scenario.Name, it.Opts.Bound, r.Stats.Executions, r.Stats.WallMS/1000))
	}
	if it.Scenario != nil {
		fs := a.perFamily[it.Scenario.Family]
		if fs == nil {
			fs = &Stats{}
			a.perFamily[it.Scenario.Family] = fs
		}
		fs.add(&r.Stats)
	}
	a.found = append(a.found, r.Found...)
	if len(a.samples) < 4 {
		if r.Sample2 != nil {
			a.samples = append(a.samples, r.Sample2)
		} else if r.Sample != nil && len(a.samples) < 2 {
			a.samples = append(a.samples, r.Sample)
		}
	}
}

func matchKnown(known []KnownFinding, v *Violation) *KnownFinding {
	for i := range known {
		k := &known[i]
		if k.Status == "open" && k.Property == v.Property && k.Rule == v.Rule && k.Signature == v.Signature {
			return k
		}
	}
	return nil
}

func report(pd *PropDef, tier string, agg *aggregate, nItems int, wall time.Duration) int {
	dir := *flagVerifDir
	known := loadKnown(dir)
	os.MkdirAll(filepath.Join(dir, "replays"), 0o755)
	os.MkdirAll(filepath.Join(dir, "evidence"), 0o755)
	exit := 0
	violations := 0
	knownPrinted := map[string]bool{}
	unstable := 0

	// A worker death is a finding of its own rule.
	for i, d := range agg.deaths {
		v := &Violation{Property: pd.ID, Rule: "process-died", Signature: deathSignature(d.Stderr),
			Msg: "the process running the engine died (panic or exit) during this scenario"}
		if d.Hung {
			v.Rule, v.Signature, v.Msg = "process-hung", "watchdog", "the process running the engine made no progress outside a bubble for far longer than every internal cap; it was stopped with a goroutine dump"
		}
		f := &Found{V: *v, Scenario: d.Item.Scenario, Stable: true, Events: tailLines(d.Stderr, 60), Choices: walChoices(d.WAL)}
		_ = i
		agg.found = append(agg.found, f)
	}
	sort.SliceStable(agg.found, func(i, j int) bool { return len(agg.found[i].Choices) < len(agg.found[j].Choices) })
	reported := map[string]bool{}
	emit := func(v *Violation, artefact any) {
		if v.Property == "" {
			v.Property = pd.ID
		}
		if k := matchKnown(known, v); k != nil {
			if !knownPrinted[k.Rule+"|"+k.Signature] {
				knownPrinted[k.Rule+"|"+k.Signature] = true
				fmt.Printf("KNOWN-FINDING: property=%s %s\n", pd.ID, k.What)
			}
			return
		}
		if reported[v.Key()] {
			return
		}
		reported[v.Key()] = true
		violations++
		path := filepath.Join(dir, "replays", fmt.Sprintf("%s-%s-%d.json", pd.ID, tier, violations))
		b, _ := json.MarshalIndent(artefact, "", " ")
		os.WriteFile(path, b, 0o644)
		fmt.Printf("VIOLATION property=%s replay=%s\n", pd.ID, path)
		fmt.Printf("  rule=%s signature=%s: %s\n", v.Rule, v.Signature, v.Msg)
		exit = 1
	}
	for _, f := range agg.found {
		if !f.Stable {
			unstable++
			agg.warnings = append(agg.warnings, "unstable violation dropped: "+f.V.Key()+": "+f.V.Msg)
			continue
		}
		dsl := ""
		if f.Scenario != nil {
			dsl = f.Scenario.DSL()
		}
		emit(&f.V, map[string]any{"property": pd.ID, "kind": "schedule", "violation": f.V, "scenario": f.Scenario, "dsl": dsl, "choices": f.Choices, "events": f.Events, "points": f.Points})
	}
	for _, f := range agg.enumFound {
		emit(&f.V, map[string]any{"property": pd.ID, "kind": "input", "violation": f.V, "input": f.Input})
	}
	harnessErr := len(agg.errs) > 0
	if agg.stats.Executions > 0 && agg.stats.Diverged*100 > agg.stats.Executions {
		harnessErr = true
		agg.errs = append(agg.errs, fmt.Sprintf("%d of %d executions diverged on replay", agg.stats.Diverged, agg.stats.Executions))
	}

	exhaustive := !agg.stats.Capped && agg.stats.Diverged == 0 && len(agg.deaths) == 0 && !harnessErr
	cov := map[string]any{
		"rule":       pd.Rule,
		"exhaustive": exhaustive,
		"work_items": nItems,
	}
	var samples []any
	if pd.Enum != nil && agg.enum.Evaluations > 0 {
		cov["evaluations"] = agg.enum.Evaluations
		cov["distinct_nontrivial"] = agg.enum.Distinct
		for _, s := range agg.enum.Samples {
			samples = append(samples, s)
		}
		if len(agg.enum.Notes) > 0 {
			cov["notes"] = dedupe(agg.enum.Notes)
		}
	}
	if agg.stats.Executions > 0 && agg.enum.Evaluations > 0 {
		// a model-checking property with an additional enumerated part (C10: real-kill cross-validation)
		cov["enumerated_fault_points"] = agg.enum.Evaluations
		cov["enumerated_distinct_outcomes"] = agg.enum.Distinct
	}
	if agg.stats.Executions > 0 {
		cov["states"] = agg.stats.States
		cov["transitions"] = agg.stats.Transitions
		cov["traces_validated_against_impl"] = agg.stats.Executions
		cov["evaluations"] = agg.stats.Executions
		cov["distinct_nontrivial"] = agg.stats.BranchStates
		cov["executions_with_choice"] = agg.stats.NonTrivial
		cov["executions"] = agg.stats.Executions
		cov["operations_executed"] = agg.stats.Steps
		cov["max_depth"] = agg.stats.MaxDepth
		cov["scenarios"] = agg.scenarios
		cov["outcomes"] = agg.stats.Outcomes
		cov["outcomes_distinct"] = agg.stats.EndStates
		cov["diverged"] = agg.stats.Diverged
		cov["capped"] = agg.stats.Capped
		if agg.budgetNote != "" {
			cov["budget"] = agg.budgetNote
		}
		if len(agg.cappedNames) > 0 {
			sort.Strings(agg.cappedNames)
			cov["capped_scenarios"] = agg.cappedNames
			cov["capped_note"] = "these scenarios hit their wall-clock cap: they were explored depth-first in deviation order up to the cap and are NOT covered up to the requested bound; every other scenario was covered completely up to its bound"
		}
		fam := map[string]any{}
		for k, s := range agg.perFamily {
			fam[k] = map[string]any{"executions": s.Executions, "states": s.States, "transitions": s.Transitions, "end_states": s.EndStates}
		}
		cov["families"] = fam
		for _, s := range agg.samples {
			samples = append(samples, map[string]any{"scenario": s.Scenario.DSL(), "name": s.Scenario.Name, "schedule": s.Choices})
		}
	}
	if samples == nil {
		samples = []any{"(nothing explored)"}
	}
	cov["samples"] = samples
	if len(agg.warnings) > 0 {
		cov["warnings"] = dedupe(agg.warnings)
	}
	if len(agg.errs) > 0 {
		cov["harness_errors"] = agg.errs
	}
	cov["worker_deaths"] = len(agg.deaths)
	cov["known_findings_seen"] = len(knownPrinted)
	seed, _ := strconv.Atoi(os.Getenv("VERIF_SEED"))
	ev := map[string]any{
		"property_id": pd.ID,
		"tier":        tier,
		"seed":        seed,
		"level":       pd.Level,
		"coverage":    cov,
		"assumptions": pd.Assumptions,
		"wall_s":      wall.Seconds(),
		"violations":  violations,
	}
	b, _ := json.MarshalIndent(ev, "", " ")
	os.WriteFile(filepath.Join(dir, "evidence", pd.ID+".json"), b, 0o644)

	fmt.Printf("%s tier=%s items=%d executions=%d states=%d transitions=%d enum_evals=%d outcomes=%d nontrivial=%d diverged=%d capped=%v deaths=%d violations=%d known=%d wall=%.1fs\n",
		pd.ID, tier, nItems, agg.stats.Executions, agg.stats.States, agg.stats.Transitions, agg.enum.Evaluations, agg.stats.EndStates, agg.stats.NonTrivial,
		agg.stats.Diverged, agg.stats.Capped, len(agg.deaths), violations, len(knownPrinted), wall.Seconds())
	for _, w := range dedupe(agg.warnings) {
		fmt.Println("WARNING:", w)
	}
	if harnessErr && exit == 0 {
		for _, e := range agg.errs {
			fmt.Println("HARNESS-ERROR:", e)
		}
		return 2
	}
	return exit
}

func dedupe(in []string) []string {
	seen := map[string]bool{}
	var out []string
	for _, s := range in {
		if !seen[s] {
			seen[s] = true
			out = append(out, s)
		}
	}
	if len(out) > 20 {
		out = append(out[:20], fmt.Sprintf("... and %d more", len(out)-20))
	}
	return out
}

func tailLines(s string, n int) []string {
	lines := strings.Split(strings.TrimRight(s, "\n"), "\n")
	if len(lines) > n {
		lines = lines[len(lines)-n:]
	}
	return lines
}

// deathSignature extracts what killed the process: the panic message or fatal log line, without addresses.
func deathSignature(stderr string) string {
	for _, l := range strings.Split(stderr, "\n") {
		l = strings.TrimSpace(l)
		if strings.HasPrefix(l, "panic:") || strings.HasPrefix(l, "fatal error:") {
			if len(l) > 120 {
				l = l[:120]
			}
			return sanitize(l)
		}
	}
	for _, l := range strings.Split(stderr, "\n") {
		if strings.Contains(l, "failed to write") || strings.Contains(l, "Fatal") {
			if len(l) > 120 {
				l = l[:120]
			}
			return sanitize(l)
		}
	}
	return "unknown"
}

func sanitize(s string) string {
	var b bytes.Buffer
	for _, f := range strings.Fields(s) {
		if strings.HasPrefix(f, "0x") || strings.HasPrefix(f, "[0x") {
			continue
		}
		b.WriteString(f)
		b.WriteByte(' ')
	}
	return strings.TrimSpace(b.String())
}

func walChoices(wal string) []string {
	lines := strings.Split(strings.TrimRight(wal, "\n"), "\n")
	if len(lines) <= 1 {
		return nil
	}
	return lines[1:]
}

// ---------------------------------------------------------------------------------------------
// Replay of an artefact, without the explorer.

func replayFile(t *testing.T, path string) int {
	b, err := os.ReadFile(path)
	if err != nil {
		fmt.Println("cannot read artefact:", err)
		return 2
	}
	var art struct {
		Property  string          `json:"property"`
		Kind      string          `json:"kind"`
		Violation Violation       `json:"violation"`
		Scenario  *Scenario       `json:"scenario"`
		Choices   []string        `json:"choices"`
		Input     json.RawMessage `json:"input"`
	}
	if err := json.Unmarshal(b, &art); err != nil {
		fmt.Println("bad artefact:", err)
		return 2
	}
	pd := Props[art.Property]
	if pd == nil {
		fmt.Println("unknown property", art.Property)
		return 2
	}
	if art.Kind == "input" {
		return replayInput(t, pd, art.Violation, art.Input)
	}
	if art.Scenario.Crash {
		return replayCrash(t, pd, art.Scenario, art.Choices, art.Violation)
	}
	e := &Explorer{T: t, Sc: art.Scenario, NewMon: func() Monitor { return pd.NewMon(art.Scenario) }}
	x := e.runOnce(art.Choices, nil, false)
	for _, ev := range x.W.Events {
		fmt.Println("  ", ev.String())
	}
	fmt.Printf("scenario: %s\noutcome: %s\n", art.Scenario.DSL(), x.Outcome)
	if x.Diverged != "" {
		fmt.Println("replay diverged:", x.Diverged)
	}
	code := 0
	for _, v := range x.Violations {
		fmt.Printf("VIOLATION property=%s replay=%s\n  rule=%s signature=%s: %s\n", v.Property, path, v.Rule, v.Signature, v.Msg)
		code = 1
	}
	if code == 0 {
		fmt.Println("no violation on this tree for this schedule")
	}
	return code
}

// freshDefaultPool installs a worker pool that lives outside every bubble as the process default. Executions in a
// bubble install (and close) their own pool; an enumerator running afterwards in the same worker outside a bubble
// would otherwise submit storage work (the List stream) to the closed pool of a dead bubble and wait for ever.
func freshDefaultPool() func() {
	pool, err := worker.New(stdctx.Background(), "enum", worker.WithSize(16))
	if err != nil {
		panic(err)
	}
	worker.Set(pool)
	return func() { pool.Close(stdctx.Background()) }
}
