package mc

import (
	"fmt"
	"strings"
	"time"

	"github.com/element-of-surprise/coercion/workflow"
)

// C04: Wait returns a terminal, quiescent, consistent and truthful final plan.
type monC04 struct{}

// fullDigest renders everything a reader can observe of a stored plan, times included.
func fullDigest(v *PlanView) string {
	var b strings.Builder
	for _, p := range v.Order {
		o := v.Objs[p]
		fmt.Fprintf(&b, "%s=%s/%d/%d", p, o.Status, o.Start.UnixNano(), o.End.UnixNano())
		if o.Kind == "plan" {
			fmt.Fprintf(&b, "/%s", o.Reason)
		}
		for _, a := range o.Att {
			fmt.Fprintf(&b, "[%v,%v,%q,%v,%d,%d]", a.HasErr, a.Permanent, a.Msg, a.HasResp, a.Start.UnixNano(), a.End.UnixNano())
		}
		b.WriteString(";")
	}
	return b.String()
}

func terminal(s workflow.Status) bool { return s == workflow.Completed || s == workflow.Failed }

// Consistency checks the cross-object rules of C04 on a stored plan; each finding is (rule, message).
func Consistency(x *Exec, h *Hist, v *PlanView, pi int) [][2]string {
	var out [][2]string
	add := func(rule, format string, a ...any) { out = append(out, [2]string{rule, fmt.Sprintf(format, a...)}) }
	planPath := fmt.Sprintf("P%d", pi)
	ps := v.Objs[planPath]
	if ps == nil {
		add("plan-missing", "%s cannot be read", planPath)
		return out
	}
	n := len(h.Events)
	if !terminal(ps.Status) {
		add("plan-not-terminal", "the stored plan is %s", ps.Status)
	}
	for _, p := range v.Order {
		o := v.Objs[p]
		if o.Status == workflow.Running {
			add("object-still-running", "%s is stored Running", p)
		}
		if terminal(o.Status) && o.Start.After(o.End) {
			add("start-after-end", "%s is %s with start %s after end %s", p, o.Status, o.Start.Format(time.RFC3339Nano), o.End.Format(time.RFC3339Nano))
		}
		if o.Kind == "action" {
			for i, a := range o.Att {
				if a.Start.After(a.End) {
					add("start-after-end", "attempt %d of %s has start after end", i, p)
				}
			}
			if len(o.Att) > 0 {
				last := o.Att[len(o.Att)-1]
				if !last.HasErr && o.Status != workflow.Completed {
					add("action-status-vs-final-attempt", "%s is %s but its final attempt has no error", p, o.Status)
				}
				if last.HasErr && o.Status == workflow.Completed {
					add("action-status-vs-final-attempt", "%s is Completed but its final attempt failed", p)
				}
			} else if o.Status == workflow.Completed {
				add("action-status-vs-final-attempt", "%s is Completed without any attempt", p)
			}
		}
		if o.Kind == "checks" && o.Status == workflow.Completed {
			// the statuses agree with each other: a group that passed consists of actions that passed
			for _, ap := range v.Order {
				if av := v.Objs[ap]; av != nil && av.Kind == "action" && strings.HasPrefix(ap, p+"/") && av.Status != workflow.Completed {
					add("completed-checks-with-unfinished-action", "%s is Completed but %s is %s with %d attempts", p, ap, av.Status, len(av.Att))
				}
			}
		}
		if o.Kind == "seq" {
			acts := x.seqActions(p)
			switch o.Status {
			case workflow.Completed:
				for _, a := range acts {
					if av := v.Objs[a.Path]; av != nil && av.Status != workflow.Completed {
						add("completed-sequence-with-unfinished-action", "%s is Completed but %s is %s", p, a.Path, av.Status)
					}
				}
			case workflow.Failed:
				failedAt := -1
				nFailed := 0
				for i, a := range acts {
					if av := v.Objs[a.Path]; av != nil && av.Status == workflow.Failed {
						nFailed++
						if failedAt < 0 {
							failedAt = i
						}
					}
				}
				if nFailed != 1 {
					add("failed-sequence-action-count", "%s is Failed with %d Failed actions", p, nFailed)
				}
				for i, a := range acts {
					av := v.Objs[a.Path]
					if av == nil || failedAt < 0 {
						continue
					}
					if i < failedAt && av.Status != workflow.Completed {
						add("failed-sequence-shape", "%s is Failed at action %d but earlier action %s is %s", p, failedAt, a.Path, av.Status)
					}
					if i > failedAt && (av.Status != workflow.NotStarted || len(av.Att) > 0 || !av.Start.IsZero() || !av.End.IsZero()) {
						add("failed-sequence-shape", "%s is Failed at action %d but later action %s was touched (%s, %d attempts)", p, failedAt, a.Path, av.Status, len(av.Att))
					}
				}
			}
		}
	}
	groupFailedStored := func(scope, g string) bool {
		o := v.Objs[scope+"/"+g]
		return o != nil && o.Status == workflow.Failed
	}
	// the same agreement one level down: a block that is Completed although not bypassed has no failed check of its own
	for bi := range x.Sc.Plans[pi].Blocks {
		bp := fmt.Sprintf("%s/B%d", planPath, bi)
		bo := v.Objs[bp]
		if bo == nil || bo.Status != workflow.Completed {
			continue
		}
		if by := v.Objs[bp+"/By"]; by != nil && by.Status == workflow.Completed {
			continue
		}
		for _, g := range []string{"Pre", "Cont", "Post", "Def"} {
			if groupFailedStored(bp, g) {
				add("completed-block-with-failed-check", "%s is Completed but %s/%s is Failed", bp, bp, g)
			}
		}
	}
	if ps.Status == workflow.Completed {
		by := v.Objs[planPath+"/By"]
		bypassed := by != nil && by.Status == workflow.Completed
		if !bypassed {
			for bi := range x.Sc.Plans[pi].Blocks {
				bp := fmt.Sprintf("%s/B%d", planPath, bi)
				if bo := v.Objs[bp]; bo != nil && bo.Status != workflow.Completed {
					add("completed-plan-with-unfinished-block", "the plan is Completed but %s is %s", bp, bo.Status)
				}
			}
			for _, g := range []string{"Pre", "Cont", "Post", "Def"} {
				if groupFailedStored(planPath, g) {
					add("completed-plan-with-failed-check", "the plan is Completed but %s/%s is Failed", planPath, g)
				}
			}
		}
		if ps.Reason != workflow.FRUnknown {
			add("reason-on-completed-plan", "the plan is Completed with reason %s", ps.Reason)
		}
	}
	if ps.Status == workflow.Failed {
		ok := false
		switch ps.Reason {
		case workflow.FRUnknown:
			add("failed-plan-without-reason", "the plan is Failed but its reason is unset")
			ok = true
		case workflow.FRPreCheck:
			ok = h.groupFailedEver(x, planPath+"/Pre", n) || groupFailedStored(planPath, "Pre")
		case workflow.FRContCheck:
			ok = h.groupFailedEver(x, planPath+"/Cont", n) || groupFailedStored(planPath, "Cont")
		case workflow.FRPostCheck:
			ok = h.groupFailedEver(x, planPath+"/Post", n) || groupFailedStored(planPath, "Post")
		case workflow.FRDeferredCheck:
			ok = h.groupFailedEver(x, planPath+"/Def", n) || groupFailedStored(planPath, "Def")
		case workflow.FRBlock:
			for bi := range x.Sc.Plans[pi].Blocks {
				if bo := v.Objs[fmt.Sprintf("%s/B%d", planPath, bi)]; bo != nil && bo.Status == workflow.Failed {
					ok = true
				}
			}
		case workflow.FRExceedRecovery, workflow.FRStopped:
			ok = true
		}
		if !ok {
			add("reason-names-stage-that-did-not-fail", "the plan is Failed with reason %s but that stage did not fail", ps.Reason)
		}
	}
	return out
}

func (monC04) AtState(x *Exec) {
	w := x.W
	gates := w.Parked()
	for _, g := range gates {
		if g.Kind != "R" || !strings.HasPrefix(g.Thread, "api#") {
			continue
		}
		w.mu.Lock()
		cur, ok := w.apiCur[g.Thread]
		w.mu.Unlock()
		if !ok || cur.Op != "wait" || cur.Plan < 0 || cur.Plan >= len(x.Sc.Plans) {
			continue
		}
		pi := cur.Plan
		key := fmt.Sprintf("c04rel:%d", pi)
		if _, done := x.Mem[key]; done {
			continue
		}
		// The waiter of plan pi has been released (Wait is about to read the plan).
		p, err := x.ReadPlan(pi)
		if err != nil {
			continue
		}
		v := View(p)
		h := NewHist(x, 0)
		x.Mem[key] = fullDigest(v)
		x.Mem[fmt.Sprintf("c04idx:%d", pi)] = len(h.Events)
		for _, f := range Consistency(x, h, v, pi) {
			x.Report(&Violation{Property: "C04", Rule: f[0], Signature: "at-wait", Msg: "when Wait was released: " + f[1]})
		}
		planPath := fmt.Sprintf("P%d", pi)
		w.mu.Lock()
		for path, n := range w.InFlight {
			if n > 0 && (path == planPath || strings.HasPrefix(path, planPath+"/")) {
				x.Report(&Violation{Property: "C04", Rule: "plugin-executing-when-wait-returns", Signature: "quiescence",
					Msg: fmt.Sprintf("Wait was released while the plugin of %s is still executing", path)})
			}
		}
		w.mu.Unlock()
	}
	// After the release nothing of the plan may be invoked.
	from, to := newEvents(x, "c04")
	if from == to {
		return
	}
	w.mu.Lock()
	evs := w.Events[from:to:to]
	w.mu.Unlock()
	for i := range evs {
		e := &evs[i]
		if e.Kind != "INV" {
			continue
		}
		oi := w.Objs[e.Path]
		if oi == nil {
			continue
		}
		if idx, ok := x.Mem[fmt.Sprintf("c04idx:%d", oi.Plan)].(int); ok && from+i >= idx {
			x.Report(&Violation{Property: "C04", Rule: "plugin-invoked-after-wait-returned", Signature: "quiescence",
				Msg: fmt.Sprintf("%s was invoked after the waiter of its plan had been released", e.Path)})
		}
	}
}

func (monC04) AtEnd(x *Exec) {
	if x.Outcome != "done" && x.Outcome != "horizon" {
		return
	}
	w := x.W
	for pi := range x.Sc.Plans {
		snap, ok := x.Mem[fmt.Sprintf("c04rel:%d", pi)].(string)
		if !ok {
			continue
		}
		p, err := x.ReadPlan(pi)
		if err != nil {
			x.Report(&Violation{Property: "C04", Rule: "plan-unreadable-after-wait", Signature: "stability", Msg: err.Error()})
			continue
		}
		if d := fullDigest(View(p)); d != snap {
			x.Report(&Violation{Property: "C04", Rule: "plan-changed-after-wait-returned", Signature: "stability",
				Msg: fmt.Sprintf("the stored plan P%d changed after its waiter had been released: %s", pi, firstDiff(snap, d))})
		}
		planPath := fmt.Sprintf("P%d", pi)
		w.mu.Lock()
		for path, n := range w.InFlight {
			if n > 0 && strings.HasPrefix(path, planPath+"/") {
				x.Report(&Violation{Property: "C04", Rule: "plugin-executing-after-wait-returned", Signature: "quiescence",
					Msg: fmt.Sprintf("the plugin of %s is still executing at the end", path)})
			}
		}
		w.mu.Unlock()
	}
	// What Wait itself returned must be that terminal plan.
	for _, r := range x.Results() {
		if r.Call.Op != "wait" || r.Err != nil || r.Plan == nil || r.Call.Plan < 0 {
			continue
		}
		if r.Plan.State == nil || !terminal(r.Plan.State.Status) {
			st := "nil"
			if r.Plan.State != nil {
				st = r.Plan.State.Status.String()
			}
			x.Report(&Violation{Property: "C04", Rule: "wait-returned-non-terminal-plan", Signature: "at-wait",
				Msg: fmt.Sprintf("Wait(P%d) returned a plan in status %s", r.Call.Plan, st)})
		}
	}
}

func firstDiff(a, b string) string {
	as, bs := strings.Split(a, ";"), strings.Split(b, ";")
	for i := 0; i < len(as) && i < len(bs); i++ {
		if as[i] != bs[i] {
			return fmt.Sprintf("%q -> %q", as[i], bs[i])
		}
	}
	return "length differs"
}

func withPostTicks(scs []*Scenario, n int) []*Scenario {
	var out []*Scenario
	for _, sc := range scs {
		c := cloneScenario(sc)
		c.PostWaitTicks = n
		out = append(out, c)
	}
	return out
}

func init() {
	register(&PropDef{
		ID:    "C04",
		Level: "model_checking",
		Rule: "families F-seq, F-chk, F-cont (continuous check in flight when the plan ends by every route), F-sharp and two plans on one Workstream; a driver thread sits in Workstream.Wait and the storage read that Wait performs is gated, " +
			"so 'the state in which the waiter has been released' is an explicit state: there the plan is read from the real vault and checked (terminal, nothing Running, nothing in flight, cross-object consistency, admissible reason); " +
			"afterwards all remaining operations and two more timer ticks are executed and the plan must not be invoked or change; every order of visible operations within the deviation bound; " +
			"distinct_nontrivial = distinct states in which two or more logical threads were enabled",
		Assumptions: []string{"a free worker-pool runner always exists (64 runners)", "I/O granularity", "the reason is truthful if the named stage had a failing plugin outcome (or is stored Failed); Block is truthful when some block is stored Failed"},
		NewMon:      func(sc *Scenario) Monitor { return monC04{} },
		Items: func(tier string) []WorkItem {
			var items []WorkItem
			b := 1
			if tier == "thorough" {
				b = 2
			}
			for _, sc := range withPostTicks(FamilySeq(tier), 1) {
				items = append(items, explore("C04", sc, b, true))
			}
			for _, sc := range withPostTicks(FamilyChk(tier), 2) {
				items = append(items, explore("C04", sc, b, true))
			}
			for _, sc := range withPostTicks(FamilySharp(tier), 2) {
				items = append(items, explore("C04", sc, b, true))
			}
			// the sharp and the check-group scenarios again under the second internal scheduling policy (a woken goroutine runs
			// before its waker goes on): the waiter, the End state and the check loops hand over in the opposite order
			for _, sc := range withPostTicks(wakeTwins(FamilySharp(tier)), 2) {
				items = append(items, explore("C04", sc, b, true))
			}
			for _, sc := range withPostTicks(wakeTwins(FamilyChk(tier)), 2) {
				if strings.HasPrefix(sc.Name, "chk-pair-") || strings.HasPrefix(sc.Name, "chk-both-") || tier == "thorough" {
					items = append(items, explore("C04", sc, b, true))
				}
			}
			for _, sc := range withPostTicks(FamilyCont(tier), 2) {
				if tier == "thorough" {
					items = append(items, exploreCap("C04", sc, b, true, 900))
				} else {
					items = append(items, exploreCap("C04", sc, b, false, 30))
				}
			}
			two := &Scenario{Family: "F-seq", Name: "two-plans-one-fails", PostWaitTicks: 1, Plans: []PlanSpec{
				{Blocks: []BlockSpec{{Seqs: []SeqSpec{Seq(A()), Seq(A(Perm))}, Conc: 2}}},
				{Def: Chk(A()), Blocks: []BlockSpec{{Seqs: okSeqs(2, 1), Conc: 1}}}}}
			items = append(items, explore("C04", two, b, false))
			return items
		},
	})
}
