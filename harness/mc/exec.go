package mc

import (
	"context"
	"fmt"
	"io"
	stdlog "log"
	"log/slog"
	"os"
	"sort"
	"strings"
	"testing"
	"testing/synctest"
	"time"

	coercion "github.com/element-of-surprise/coercion"
	"github.com/element-of-surprise/coercion/plugins/registry"
	"github.com/element-of-surprise/coercion/workflow"
	"github.com/element-of-surprise/coercion/workflow/storage"
	"github.com/element-of-surprise/coercion/workflow/storage/sqlite"
	"github.com/google/uuid"
	"github.com/gostdlib/base/concurrency/worker"
	bctx "github.com/gostdlib/base/context"
	blog "github.com/gostdlib/base/telemetry/log"
)

func init() {
	blog.Set(slog.New(slog.NewTextHandler(io.Discard, nil)))
	// slog.SetDefault redirected the std logger into the discarding handler; fatal messages must stay visible.
	stdlog.SetOutput(os.Stderr)
	stdlog.SetFlags(0)
}

// Violation is a property violation found by a monitor.
type Violation struct {
	Property  string `json:"property"`
	Rule      string `json:"rule"`
	Signature string `json:"signature"` // pins the cause; matched against known findings
	Msg       string `json:"msg"`
	Step      int    `json:"step"`
}

func (v *Violation) Key() string { return v.Property + "|" + v.Rule + "|" + v.Signature }

// Monitor checks one property on the states of one execution.
type Monitor interface {
	// AtState is called at every quiescent state, before the next choice is made. Violations go to x.Report.
	AtState(x *Exec)
	// AtEnd is called once, after the execution ended (outcome is set) and before teardown.
	AtEnd(x *Exec)
}

// APIResult is the result of one API call of a driver thread.
type APIResult struct {
	Thread string
	Call   APICall
	Idx    int
	Step   int
	Plan   *workflow.Plan
	ID     uuid.UUID
	Err    error
	Panic  any
	Items  []*workflow.Plan // for status
}

// Point is one choice point of an execution.
type Point struct {
	Enabled        []string `json:"enabled"`
	Chosen         string   `json:"chosen"`
	RunningEnabled bool     `json:"re,omitempty"` // the thread that ran last has an enabled operation (it is Enabled[0])
	Forced         bool     `json:"forced,omitempty"`
}

// Exec is the state of one execution, visible to monitors.
type Exec struct {
	CurRunning bool // the first enabled operation of the current state continues the thread that ran last

	Sc     *Scenario
	W      *World
	Inner  storage.Vault
	GV     *GateVault
	Reg    *registry.Register
	WS     *coercion.Workstream
	Pool   *worker.Pool
	Ctx    context.Context
	Points []Point

	APIResults []APIResult
	apiDone    map[string]bool
	apiThreads []string

	Outcome   string // done hang horizon diverged violation
	Ticks     int
	postTicks int
	tickDead  bool
	Diverged  string
	Leaked    bool
	// EventsAtEnd is the number of events when the driver loop ended (later ones belong to the teardown).
	EventsAtEnd int
	EndDigest   string
	Violations  []*Violation
	// Scratch space for monitors.
	Mem map[string]any
	// NonTrivial is set when at some point two different logical threads were enabled.
	NonTrivial bool
}

// Chooser picks the next operation. It gets the canonical enabled list and returns the label to take.
// Returning "" ends the execution early (used by replay divergence).
type Chooser func(step int, enabled []string) string

const (
	forcedHorizon = 600 * time.Second
	devHorizon    = 10 * time.Second
)

// Report records a violation (first one per key is kept).
func (x *Exec) Report(v *Violation) {
	for _, o := range x.Violations {
		if o.Key() == v.Key() {
			return
		}
	}
	v.Step = x.W.Step
	x.Violations = append(x.Violations, v)
}

// AllAPIDone reports whether every API thread finished its script.
func (x *Exec) AllAPIDone() bool {
	x.W.mu.Lock()
	defer x.W.mu.Unlock()
	for _, t := range x.apiThreads {
		if !x.apiDone[t] {
			return false
		}
	}
	return true
}

func (x *Exec) addResult(r APIResult) {
	x.W.mu.Lock()
	r.Step = x.W.Step
	x.APIResults = append(x.APIResults, r)
	x.W.mu.Unlock()
}

// Results returns a copy of the API results so far.
func (x *Exec) Results() []APIResult {
	x.W.mu.Lock()
	defer x.W.mu.Unlock()
	return append([]APIResult(nil), x.APIResults...)
}

// ReadPlan reads plan number pi directly from the inner vault (not gated, not logged).
func (x *Exec) ReadPlan(pi int) (*workflow.Plan, error) {
	if pi < 0 || pi >= len(x.W.PlanIDs) || x.W.PlanIDs[pi] == uuid.Nil {
		return nil, fmt.Errorf("plan %d not submitted", pi)
	}
	return x.Inner.Read(x.Ctx, x.W.PlanIDs[pi])
}

func (x *Exec) registerPlan(pi int, p *workflow.Plan) {
	w := x.W
	w.mu.Lock()
	defer w.mu.Unlock()
	for len(w.PlanIDs) <= pi {
		w.PlanIDs = append(w.PlanIDs, uuid.Nil)
		w.Plans = append(w.Plans, nil)
	}
	w.PlanIDs[pi] = p.ID
	w.Plans[pi] = p
	BuildIDs(p, func(path string, id uuid.UUID) { w.PathOf[id] = path })
}

// BuildIDs walks a plan built by BuildPlan (names are paths) and reports id of every object.
func BuildIDs(p *workflow.Plan, f func(path string, id uuid.UUID)) {
	f(p.Name, p.ID)
	chk := func(prefix string, c *workflow.Checks, g string) {
		if c == nil {
			return
		}
		f(prefix+"/"+g, c.ID)
		for _, a := range c.Actions {
			f(a.Name, a.ID)
		}
	}
	chk(p.Name, p.BypassChecks, "By")
	chk(p.Name, p.PreChecks, "Pre")
	chk(p.Name, p.ContChecks, "Cont")
	chk(p.Name, p.PostChecks, "Post")
	chk(p.Name, p.DeferredChecks, "Def")
	for _, b := range p.Blocks {
		f(b.Name, b.ID)
		chk(b.Name, b.BypassChecks, "By")
		chk(b.Name, b.PreChecks, "Pre")
		chk(b.Name, b.ContChecks, "Cont")
		chk(b.Name, b.PostChecks, "Post")
		chk(b.Name, b.DeferredChecks, "Def")
		for _, s := range b.Sequences {
			f(s.Name, s.ID)
			for _, a := range s.Actions {
				f(a.Name, a.ID)
			}
		}
	}
}

func (x *Exec) buildPlan(pi int) *workflow.Plan {
	w := x.W
	return BuildPlan(&x.Sc.Plans[pi], pi, func(oi ObjInfo, obj any) {
		o := oi
		w.mu.Lock()
		w.Objs[oi.Path] = &o
		w.mu.Unlock()
		if a, ok := obj.(*workflow.Action); ok && x.Sc.TimeoutRace {
			a.Timeout = 5 * time.Second
		} else if ok {
			a.Timeout = time.Hour
		}
	})
}

func (x *Exec) submit(pi int) (uuid.UUID, error) {
	p := x.buildPlan(pi)
	id, err := x.WS.Submit(x.Ctx, p)
	if err == nil {
		x.registerPlan(pi, p)
	}
	return id, err
}

func (x *Exec) planID(pi int) uuid.UUID {
	x.W.mu.Lock()
	defer x.W.mu.Unlock()
	if pi >= 0 && pi < len(x.W.PlanIDs) && x.W.PlanIDs[pi] != uuid.Nil {
		return x.W.PlanIDs[pi]
	}
	// A fixed, never created v7 id.
	return uuid.MustParse("01890000-0000-7000-8000-00000000dead")
}

func (x *Exec) apiThread(name string, script []APICall) {
	w := x.W
	w.mu.Lock()
	w.apiGoids[goid()] = name
	w.mu.Unlock()
	defer func() {
		w.mu.Lock()
		x.apiDone[name] = true
		w.mu.Unlock()
		w.signal()
	}()
	for i, c := range script {
		g := &Gate{Thread: name, Kind: "API", Path: fmt.Sprintf("P%d", c.Plan), Detail: fmt.Sprintf("%d:%s", i, c.Op), Releasable: true}
		w.park(g, nil)
		w.Log(Event{Kind: "API", Thread: name, Path: g.Path, Out: c.String(), N: i})
		w.mu.Lock()
		w.apiCur[name] = c
		w.mu.Unlock()
		res := x.doCall(name, i, c)
		w.mu.Lock()
		delete(w.apiCur, name)
		w.mu.Unlock()
		e := Event{Kind: "APIRET", Thread: name, Path: g.Path, Out: c.String(), N: i}
		if res.Err != nil {
			e.Err = res.Err.Error()
		}
		if res.Panic != nil {
			e.Err = fmt.Sprintf("PANIC: %v", res.Panic)
		}
		w.Log(e)
		x.addResult(res)
	}
}

func (x *Exec) doCall(name string, i int, c APICall) (res APIResult) {
	res = APIResult{Thread: name, Call: c, Idx: i}
	defer func() {
		if r := recover(); r != nil {
			res.Panic = r
		}
	}()
	ctx := x.Ctx
	switch c.Op {
	case "submit":
		res.ID, res.Err = x.submit(c.Plan)
	case "submitbad":
		p := x.buildPlan(c.Plan)
		p.Name = " "
		res.ID, res.Err = x.WS.Submit(ctx, p)
	case "start":
		res.ID = x.planID(c.Plan)
		if x.Sc.CancelStartCtx {
			// a request-scoped context: it ends as soon as the (non-blocking) Start has returned. Start documents that
			// cancelling it does not stop the execution.
			sctx, cancel := context.WithCancel(ctx)
			res.Err = x.WS.Start(sctx, res.ID)
			cancel()
			break
		}
		res.Err = x.WS.Start(ctx, res.ID)
	case "wait":
		res.ID = x.planID(c.Plan)
		res.Plan, res.Err = x.WS.Wait(ctx, res.ID)
	case "plan":
		res.ID = x.planID(c.Plan)
		res.Plan, res.Err = x.WS.Plan(ctx, res.ID)
	case "status":
		res.ID = x.planID(c.Plan)
		n := c.Arg
		if n <= 0 {
			n = 2
		}
		for r := range x.WS.Status(ctx, res.ID, time.Second) {
			if r.Err != nil {
				res.Err = r.Err
				break
			}
			res.Items = append(res.Items, r.Data)
			if len(res.Items) >= n {
				break
			}
		}
	case "sleep":
		time.Sleep(time.Duration(c.Arg) * time.Second)
	default:
		res.Err = fmt.Errorf("unknown api op %q", c.Op)
	}
	return res
}

// sameLineage: a check group and its actions (thread "P0/Pre" and "P0/Pre/A0") are one line of work for the default
// schedule: "keep running what ran last" follows it from the group into its actions and back.
func sameLineage(a, b string) bool {
	return a == b || (b != "" && strings.HasPrefix(a, b+"/")) || (a != "" && strings.HasPrefix(b, a+"/"))
}

// enabledOps computes the canonical enabled list for the current quiescent state.
func (x *Exec) enabledOps(gates []*Gate) (labels []string, runningEnabled, forced bool) {
	w := x.W
	var rel []*Gate
	invParked, seqInvParked, onlyInv := false, false, true
	for _, g := range gates {
		if g.Releasable {
			rel = append(rel, g)
			if g.Kind == "INV" {
				invParked = true
				if oi := w.Objs[g.Path]; isSeqAction(oi) {
					seqInvParked = true
				}
			} else if g.Kind != "API" {
				onlyInv = false
			}
		}
	}
	// The "running thread" is the operation that the last released one led to: it arrived after that release and
	// belongs to the same line of work. An operation that was already parked then (and was passed over) is another
	// thread of activity, whatever its name: preferring it would make "never run it" cost one deviation per step.
	w.mu.Lock()
	last, since := w.LastThread, w.lastReleaseSeq
	w.mu.Unlock()
	cont := func(g *Gate) bool { return g.seq > since && sameLineage(g.Thread, last) }
	sort.SliceStable(rel, func(i, j int) bool {
		li, lj := cont(rel[i]), cont(rel[j])
		if li != lj {
			return li
		}
		return rel[i].Label < rel[j].Label
	})
	threads := map[string]bool{}
	for _, g := range rel {
		labels = append(labels, g.Label)
		threads[g.Thread] = true
	}
	if len(threads) > 1 {
		x.NonTrivial = true
	}
	runningEnabled = len(rel) > 0 && cont(rel[0])
	tickOK := x.Ticks < x.Sc.maxTicks() && !x.tickDead
	if len(rel) > 0 {
		if tickOK && (x.Sc.Time || (x.Sc.TimeoutRace && invParked)) {
			if x.Sc.SlowPlugins && seqInvParked && onlyInv {
				// slow plugins: letting time pass is the default while only plugin calls are pending
				return append([]string{"TICK"}, labels...), false, false
			}
			labels = append(labels, "TICK")
		}
		return labels, runningEnabled, false
	}
	// Nothing releasable: time is the only thing that can pass.
	if x.tickDead {
		return nil, false, false
	}
	if !x.AllAPIDone() || len(gates) > 0 {
		if x.Ticks < x.Sc.maxTicks() {
			return []string{"TICK"}, false, true
		}
		return nil, false, false
	}
	// Everything finished: a few more ticks to observe late activity.
	if x.postTicks < x.Sc.PostWaitTicks {
		return []string{"TICK"}, false, true
	}
	return nil, false, false
}

func (x *Exec) tick(forced bool) {
	w := x.W
	select {
	case <-w.arrival:
	default:
	}
	h := devHorizon
	if forced {
		h = forcedHorizon
	}
	if x.AllAPIDone() {
		x.postTicks++
		h = devHorizon
	}
	x.Ticks++
	w.mu.Lock()
	w.lastReleaseSeq = w.gateSeq
	w.mu.Unlock()
	tm := time.NewTimer(h)
	select {
	case <-w.arrival:
		tm.Stop()
	case <-tm.C:
		x.tickDead = true
	}
	w.Log(Event{Kind: "TICK", Out: fmt.Sprintf("dead=%v", x.tickDead)})
}

// ExecOpts configures one execution.
type ExecOpts struct {
	MaxSteps int
	// Boot, when set, is used instead of a fresh empty store: it prepares the inner vault (crash layer).
	Boot func(x *Exec) error
	// Gen is the process generation for the world (crash layer).
	Gen int
	// Vault, when set, supplies the inner vault.
	Vault func(x *Exec) (storage.Vault, error)
	// WAL, when set, receives the header and then every chosen label before the step is taken, so that a
	// process death leaves a replayable schedule behind.
	WAL       *os.File
	WALHeader string
}

// RunExecution runs one execution of sc inside a fresh bubble, taking choices from choose and checking mon.
func RunExecution(t *testing.T, sc *Scenario, choose Chooser, mon Monitor, opt ExecOpts) (x *Exec) {
	x = &Exec{Sc: sc, apiDone: map[string]bool{}, Mem: map[string]any{}}
	defer func() {
		if r := recover(); r != nil {
			msg := fmt.Sprint(r)
			if strings.Contains(msg, "deadlock: main bubble goroutine has exited") {
				// goroutines of a hung execution stay blocked for good; they are leaked on purpose.
				return
			}
			panic(r)
		}
	}()
	synctest.Test(t, func(t *testing.T) { x.run(choose, mon, opt) })
	return x
}

func (x *Exec) run(choose Chooser, mon Monitor, opt ExecOpts) {
	sc := x.Sc
	if sc.SelectOrder == 2 {
		SetSelectOrder(2)
	} else {
		SetSelectOrder(1)
	}
	SetWakeFirst(sc.WakeFirst)
	defer SetWakeFirst(false)
	pool, err := worker.New(context.Background(), "mc", worker.WithSize(64))
	if err != nil {
		panic(err)
	}
	worker.Set(pool)
	x.Pool = pool
	ctx := bctx.Background()
	x.Ctx = ctx

	w := NewWorld(sc)
	w.Gen = opt.Gen
	x.W = w
	w.driverGoid = goid()

	reg := registry.New()
	reg.MustRegister(&Plug{w: w, name: PlugAct})
	reg.MustRegister(&Plug{w: w, name: PlugChk, check: true})
	x.Reg = reg

	var inner storage.Vault
	if opt.Vault != nil {
		inner, err = opt.Vault(x)
	} else {
		inner, err = sqlite.New(ctx, fmt.Sprintf("mem-%p", w), reg, sqlite.WithInMemory())
	}
	if err != nil {
		panic(err)
	}
	x.Inner = inner
	x.GV = NewGateVault(w, inner)

	var wsOpts []coercion.Option
	if opt.Boot == nil && len(sc.BootStates) > 0 {
		opt.Boot = bootStates(sc)
	}
	if opt.Boot != nil {
		if err := opt.Boot(x); err != nil {
			panic(err)
		}
	}
	if sc.NoRecovery {
		wsOpts = append(wsOpts, coercion.WithNoRecovery())
	}

	if sc.MaxSubmitSec > 0 {
		wsOpts = append(wsOpts, coercion.WithMaxSubmit(time.Duration(sc.MaxSubmitSec)*time.Second))
	}
	if sc.MaxLastUpdateSec > 0 {
		wsOpts = append(wsOpts, coercion.WithMaxLastUpdate(time.Duration(sc.MaxLastUpdateSec)*time.Second))
	}
	ws, err := coercion.New(ctx, reg, x.GV, wsOpts...)
	if err != nil {
		panic(err)
	}
	x.WS = ws

	if !sc.NoPresubmit && opt.Boot == nil {
		for pi := range sc.Plans {
			if _, err := x.submit(pi); err != nil {
				panic(fmt.Sprintf("presubmit of plan %d failed: %v", pi, err))
			}
		}
	}
	threads := sc.Threads
	if len(threads) == 0 && len(sc.BootStates) == 0 {
		for pi := range sc.Plans {
			threads = append(threads, []APICall{{Op: "start", Plan: pi}, {Op: "wait", Plan: pi}})
		}
	}
	for i, script := range threads {
		name := fmt.Sprintf("api#%d", i)
		x.apiThreads = append(x.apiThreads, name)
		go x.apiThread(name, script)
	}

	if opt.WAL != nil {
		opt.WAL.Truncate(0)
		opt.WAL.Seek(0, 0)
		opt.WAL.WriteString(opt.WALHeader + "\n")
	}
	maxSteps := opt.MaxSteps
	if maxSteps == 0 {
		maxSteps = 2000
	}
	for {
		synctest.Wait()
		w.mu.Lock()
		w.Step++
		step := w.Step
		w.mu.Unlock()
		gates := w.Parked()
		if mon != nil {
			mon.AtState(x)
		}
		enabled, re, forced := x.enabledOps(gates)
		x.CurRunning = re
		if len(enabled) == 0 {
			switch {
			case x.AllAPIDone() && len(gates) == 0:
				x.Outcome = "done"
			case x.Ticks >= sc.maxTicks() && !x.tickDead:
				x.Outcome = "horizon"
			default:
				x.Outcome = "hang"
			}
			break
		}
		if step > maxSteps {
			x.Outcome = "horizon"
			break
		}
		label := choose(len(x.Points), enabled)
		if label == "" {
			x.Outcome = "diverged"
			break
		}
		if label == "\x00PRUNE" {
			x.Outcome = "pruned"
			break
		}
		x.Points = append(x.Points, Point{Enabled: enabled, Chosen: label, RunningEnabled: re, Forced: forced})
		if opt.WAL != nil {
			opt.WAL.WriteString(label + "\n")
		}
		if label == "TICK" {
			x.tick(forced)
			continue
		}
		var g *Gate
		for _, c := range gates {
			if c.Label == label {
				g = c
				break
			}
		}
		if g == nil {
			x.Outcome = "diverged"
			x.Diverged = fmt.Sprintf("step %d: label %q not enabled; enabled=%v", len(x.Points)-1, label, enabled)
			x.Points = x.Points[:len(x.Points)-1]
			break
		}
		x.tickDead = false
		w.release(g)
	}
	w.mu.Lock()
	x.EventsAtEnd = len(w.Events)
	w.mu.Unlock()
	if mon != nil && x.Outcome != "diverged" && x.Outcome != "pruned" {
		mon.AtEnd(x)
	}
	// Teardown: let everything that is parked run to its end without gates.
	for i := 0; i < 50; i++ {
		w.drain()
		synctest.Wait()
		if len(w.Parked()) == 0 {
			break
		}
	}
	// Engine goroutines are pool jobs: if the pool drains, nothing can touch the vault any more and it is closed;
	// otherwise (hung or still ticking engine) everything is leaked together with the dead bubble.
	cctx, cancel := context.WithTimeout(ctx, 5*time.Second)
	if err := pool.Close(cctx); err == nil {
		inner.Close(cctx)
	} else {
		x.Leaked = true
	}
	cancel()
}
